'''
Raptor rig: drives the REAL raptor classes and records one event per
linearization point for RaptorTrace.tla.

  RaptorRig   real Master (_request_cb/_submit_tasks/_result_cb/_state_cb) and
              real DefaultWorker (_request_cb/_alloc/_dealloc/_dispatch/
              _result_watcher/_result_cb) on __new__ objects, plus the real
              per-mode dispatchers of raptor.Worker called in-process.
              No threads, no real sleeping, no real worker processes:
                - `mp.Process` is a recorder.  The dispatch process of a request
                  runs when the schedule says so: the real `_dispatch` (parent)
                  and its real nested `_worker_proc` (child) are two logical
                  threads of a baton-passing controller (harness/sched_ctl.py);
                  `mp.Lock` / `mp.Event` / `mp.Process.join|terminate` and the
                  result queue's `put` are instrumented stand-ins whose
                  operations are the schedule points, so the interleaving of
                  parent and child is a schedule choice (TLC behaviour, seeded
                  random, or exhaustive exploration).
                - `time.sleep` of the wait-for-resources poll is the schedule
                  point at which completions are delivered through the real
                  `_result_watcher` / `_result_cb`.
                - proc / shell payloads spawn tiny real sub-processes (/bin/sh):
                  the property is about them.
  ChainRig    the dispatchers alone, called one after the other in one process.
  RoutingRig  the scheduler's raptor hand-off, on top of sched_rig.SchedRig.
'''

import os
import io
import sys
import copy
import atexit
import ctypes
import random
import shutil
import asyncio
import tempfile
import threading as mt

from unittest import mock

from .. import rpshim
from .. import sched_ctl as SC

rp  = rpshim.load()
ru  = __import__('radical.utils', fromlist=['x'])
rps = rp.states
rpc = rp.constants

from radical.pilot.raptor import master         as ms
from radical.pilot.raptor import worker         as wk
from radical.pilot.raptor import worker_default as wd
from radical.pilot.raptor import worker_mpi     as wm

from . import sched_rig as SR
from radical.pilot.agent.scheduler import base as sbase

import setproctitle

MODES = {'exe'  : rp.TASK_EXECUTABLE, 'func': rp.TASK_FUNC, 'eval' : rp.TASK_EVAL,
         'exec' : rp.TASK_EXEC,       'proc': rp.TASK_PROC, 'shell': rp.TASK_SHELL}
PY_MODES   = ('func', 'eval', 'exec')
PROC_MODES = ('proc', 'shell')
KINDS      = ('ret', 'print', 'raise', 'setenv', 'delenv', 'swapout', 'coro', 'tenv', 'sysexit',
              'die')
PROC_KINDS = ('ret', 'print', 'raise', 'tenv', 'sig', 'probe')
TRACKED    = ('RPV_X', 'RPV_KEEP', 'RPV_T')

MASTER_UID = 'master.0000'
WORKER_UID = 'master.0000.worker.0000'

_libc = ctypes.CDLL(None)
_libc.getenv.restype  = ctypes.c_char_p
_libc.getenv.argtypes = [ctypes.c_char_p]

_SBOX = [None]
_REAL_ENVIRON = os.environ          # the genuine os._Environ object


def sandbox():
    if _SBOX[0] is None:
        _SBOX[0] = tempfile.mkdtemp(prefix='rpverif_raptor_', dir='/tmp')
        atexit.register(shutil.rmtree, _SBOX[0], ignore_errors=True)
    return _SBOX[0]


def kind_ok(kind, mode):
    if mode in PROC_MODES: return kind in PROC_KINDS
    if kind == 'coro'    : return mode == 'func'
    return kind in KINDS


def req(c=1, g=0, mode='func', kind='ret', tmo=False, sf=False, via='attr'):
    '''via: how a function payload is named - 'attr' (method of the worker
       implementation) or 'pytask' (serialized rp.PythonTask)'''
    assert mode == 'exe' or kind_ok(kind, mode), (kind, mode)
    return dict(c=c, g=g, mode=mode, kind=kind, tmo=bool(tmo), sf=bool(sf),
                via=via if mode == 'func' else 'attr')


# ------------------------------------------------------------------------------
# payload catalogue
#
def pay_ret():
    return 7

def pay_print():
    print('hello')
    print('oops', file=sys.stderr)

def pay_raise():
    print('partial')
    raise ValueError('boom')

def pay_setenv():
    os.environ['RPV_X'] = '1'

def pay_delenv():
    del os.environ['RPV_KEEP']

def pay_swapout():
    sys.stdout = io.StringIO()
    sys.stderr = io.StringIO()

async def pay_coro():
    await asyncio.sleep(0)
    return 7

def pay_tenv():
    return os.environ.get('RPV_T')

def pay_sysexit():
    sys.exit(3)


class _OsProxy(object):
    """what worker_default.py sees as `os`: the real module with getpid answered by the rig.
       (patching os.getpid itself would leak into every other thread of the check process, e.g.
       into multiprocessing's parent-pid assertions of the parts running side by side)"""
    def __init__(self, getpid):
        self._getpid = getpid
    def getpid(self):
        return self._getpid()
    def __getattr__(self, name):
        import os as _os
        return getattr(_os, name)


class ChildDied(BaseException):
    '''stands for the payload process ending abruptly (os._exit, SIGKILL,
       SIGSEGV): nothing of the code above the payload gets to run any more'''

def pay_die():
    raise ChildDied()

def pay_rank(*args):
    '''a function which runs on every rank of a request: args = [comm,] kinds'''
    kinds = args[-1]
    idx   = args[0].rank if len(args) > 1 else 0
    if kinds[idx] == 'raise':
        print('partial')
        raise ValueError('boom on rank %d' % idx)
    return 7


EVAL_CODE = {
    'ret'    : '3 + 4',
    'print'  : "[print('hello'), print('oops', file=sys.stderr)][2:] or None",
    'raise'  : "[print('partial'), 1 / 0]",
    'setenv' : "os.environ.__setitem__('RPV_X', '1')",
    'delenv' : "os.environ.__delitem__('RPV_KEEP')",
    'swapout': "[setattr(sys, 'stdout', io.StringIO()), setattr(sys, 'stderr', io.StringIO())][2:] or None",
    'tenv'   : "os.environ.get('RPV_T')",
    'sysexit': 'sys.exit(3)',
    'die'    : 'self.pay_die()'}

EXEC_CODE = {
    'ret'    : 'return 7',
    'print'  : "import sys\nprint('hello')\nprint('oops', file=sys.stderr)",
    'raise'  : "print('partial')\nraise ValueError('boom')",
    'setenv' : "import os\nos.environ['RPV_X'] = '1'",
    'delenv' : "import os\ndel os.environ['RPV_KEEP']",
    'swapout': "import sys, io\nsys.stdout = io.StringIO()\nsys.stderr = io.StringIO()",
    'tenv'   : "import os\nreturn os.environ.get('RPV_T')",
    'sysexit': "import sys\nsys.exit(3)",
    'die'    : "from harness.rigs import raptor_rig\nraptor_rig.pay_die()"}

SH_CODE = {
    'ret'  : 'true',
    'print': 'echo hello; echo oops >&2',
    'raise': 'echo partial; exit 3',
    'tenv' : 'echo $RPV_T',
    'sig'  : 'kill -9 $$',
    'probe': 'echo ${RPV_T:-unset}'}        # no environment of its own: what is left over?


def describe(uid, r):
    '''task dict of a request (through the real TaskDescription and Task)'''
    mode, kind = r['mode'], r['kind']
    d = {'uid': uid, 'mode': MODES[mode], 'raptor_id': MASTER_UID,
         'timeout': 5.0 if r['tmo'] else 0.0}
    if kind == 'tenv':
        d['environment'] = {'RPV_T': 'v'}
    if   mode == 'exe'  : d['executable'] = '/bin/true'
    elif mode == 'func' :
        if r.get('via') == 'pytask': d['function'] = rp.PythonTask.pythontask(globals()['pay_' + kind])()
        else                       : d['function'] = 'pay_' + kind
    elif mode == 'eval' : d['code']       = EVAL_CODE[kind]
    elif mode == 'exec' : d['code']       = EXEC_CODE[kind]
    elif mode == 'proc' : d['executable'] = '/bin/sh'; d['arguments'] = ['-c', SH_CODE[kind]]
    elif mode == 'shell': d['command']    = SH_CODE[kind]
    return make_task(d)


class _Tmgr(object):
    '''what rp.Task needs of its task manager'''
    uid, session, _log = 'tmgr.0000', None, rpshim.NullLog()

    def advance(self, *a, **k):
        pass


def make_task(d):
    '''task dict as the real code makes it: rp.Task(description).as_dict() -
       all keys of a task are there (exit_code, exception, ... are None)'''
    td = rp.TaskDescription(d)
    td.verify()
    t = rp.Task(_Tmgr(), td, 'client').as_dict()
    t['description'] = td.as_dict()
    t['state'] = rps.AGENT_SCHEDULING
    return t


# ------------------------------------------------------------------------------
class StopWatcher(BaseException):
    pass


class Stuck(BaseException):
    pass


class Recorder(object):
    '''stands for a zmq Putter / an output queue'''
    channel = 'rec'

    def __init__(self, cb):
        self.cb = cb

    def put(self, things, qname=None):
        self.cb(ru.as_list(things))


class FakePub(object):
    def __init__(self, rig):
        self.rig = rig

    def put(self, topic, msg):
        self.rig.published.append((topic, msg.get('cmd')))


class FakeResultQueue(object):
    '''the worker's internal mp.Queue; `put` is a schedule point'''

    def __init__(self, rig):
        self.rig = rig

    def put(self, res):
        rig = self.rig
        who = rig.ctl.current() if rig.ctl else None
        if who:
            rig.ctl.point('put')
        rig.nres += 1
        rig.resq.append({'uid': res[0]['uid'], 'n': 1 if who == 'C' else 2,
                         'res': copy.deepcopy(res)})
        rig.log('QPut', uid=res[0]['uid'], n=1 if who == 'C' else 2)

    def get(self, timeout=None):
        rig = self.rig
        if rig.ctl is not None and rig.ctl.current() == 'W':
            # the result thread as a logical thread (start race): waits for a result
            if rig.ctl.aborting:
                raise SC.Abort()
            rig.ctl.point('get', wants=Gate(lambda: not rig.resq))
            e = rig.resq.pop(0)
            rig.log('Deliver', uid=e['uid'], n=e['n'])
            return e['res']
        e, self.rig.pick = self.rig.pick, None
        if e is None:
            raise StopWatcher()
        return e['res']

    def close(self):
        pass

    def join_thread(self):
        pass


class Ctl(SC.Controller):
    '''controller which can take a logical thread out of the game (terminate)'''

    def kill(self, name):
        lt = self.threads.get(name)
        if lt is not None and lt.state != 'done':
            lt.killed = True
            lt.state  = 'done'

    def abort(self):
        self.aborting = True
        for n in self.order:
            lt = self.threads[n]
            if getattr(lt, 'killed', False):
                lt.killed = False
                lt.sem.release()
        SC.Controller.abort(self)


class PointDict(dict):
    '''DefaultWorker._pool: registering / removing a pid is a schedule point'''

    def __init__(self, rig, d):
        dict.__init__(self, d)
        self.rig = rig

    def _point(self):
        ctl = self.rig.ctl
        if ctl is not None and ctl.current():
            ctl.point('pool')

    def __setitem__(self, k, v):
        self._point()
        dict.__setitem__(self, k, v)

    def __delitem__(self, k):
        self._point()
        dict.__delitem__(self, k)


class Gate(object):
    '''something to wait for: `owner` is not None while the wait has to go on'''

    def __init__(self, closed):
        self.closed = closed

    @property
    def owner(self):
        return 'x' if self.closed() else None


class CtlEvent(object):
    '''mp.Event: set / is_set are schedule points'''

    def __init__(self, rig):
        self.rig, self.flag = rig, False

    def set(self):
        self.rig.ctl.point('set')
        self.flag = True

    def is_set(self):
        self.rig.ctl.point('is_set')
        return self.flag


class FakeProcess(object):
    '''mp.Process: a recorder for the dispatch process created by _request_cb;
       the child created by _dispatch becomes the logical thread "C"'''
    _pid = [4000]

    def __init__(self, rig, target, args):
        self.rig, self.target, self.args = rig, target, args
        self.daemon   = False
        self.pid      = None
        self.exitcode = None
        self.child    = getattr(target, '__name__', '') == '_worker_proc'

    def start(self):
        rig = self.rig
        if not self.child:
            uid = self.args[0]['uid']
            if rig.reqs[uid]['sf']:
                rig.log('Spawn', uid=uid, ok=False)
                raise OSError('cannot start process for %s' % uid)
            FakeProcess._pid[0] += 1
            self.pid = FakeProcess._pid[0]
            rig.procs[uid] = self
            rig.log('Spawn', uid=uid, ok=True)
            if rig.racing:
                # the dispatch process runs from now on (logical thread P)
                self.finished = True
                rig.race_pid  = self.pid
                task, env = copy.deepcopy(self.args[0]), dict(self.args[1])

                def parent():
                    try:
                        self.target(task, env)
                    except SystemExit:
                        pass
                rig.ctl.spawn('P', parent)
            else:
                rig.running.append(uid)
            return

        def body():
            try:
                self.target(*self.args)
            except SC.Abort:
                raise
            except BaseException:          # mp.Process._bootstrap catches all
                pass
        rig.ctl.spawn('C', body)

    def _ended(self):
        lt = self.rig.ctl.threads.get('C')
        return lt is None or lt.state == 'done'

    def join(self, timeout=None):
        if self._ended():
            return
        if timeout is not None:
            self.rig.ctl.point('join')      # returns: child ended or timeout expired
        else:
            self.rig.ctl.point('join', wants=Gate(lambda: not self._ended()))

    def is_alive(self):
        return not self._ended()

    def terminate(self):
        self.rig.ctl.point('kill')
        self.rig.ctl.kill('C')


class FakeMP(object):
    def __init__(self, rig):
        self.rig = rig

    def Process(self, target=None, args=(), **kw):
        return FakeProcess(self.rig, target, args)

    def Lock(self):
        return SC.CLock(self.rig.ctl, 'res') if self.rig.ctl else mt.Lock()

    def Event(self):
        return CtlEvent(self.rig) if self.rig.ctl else mt.Event()


# ------------------------------------------------------------------------------
class ProcEnv(object):
    '''what stands for "the worker process": os.environ (python level and C
       level), the streams and the cwd.  enter() establishes the baseline,
       leave() re-establishes it (the process boundary of the emulation, and
       hygiene for whoever runs the rig).'''

    def __init__(self, extra=None):
        self.environ = _REAL_ENVIRON
        self.extra   = extra or {}

    def enter(self):
        os.environ = self.environ
        self.base = dict(os.environ)
        self.cwd  = os.getcwd()
        self.out, self.err = sys.stdout, sys.stderr
        os.environ['RPV_KEEP'] = 'k'
        for k, v in self.extra.items():
            os.environ[k] = v
        for k in ('RPV_X', 'RPV_T'):
            os.environ.pop(k, None)
            os.unsetenv(k)

    def leave(self):
        os.environ = self.environ
        for k in list(os.environ.keys()):
            if k not in self.base:
                del os.environ[k]
        for k, v in self.base.items():
            if os.environ.get(k) != v:
                os.environ[k] = v
        for k in TRACKED:
            if k in self.base: os.putenv(k, self.base[k])
            else             : os.unsetenv(k)
        sys.stdout, sys.stderr = self.out, self.err
        try:
            os.chdir(self.cwd)
        except OSError:
            os.chdir('/tmp')


def cgetenv(k):
    v = _libc.getenv(k.encode())
    return 'none' if v is None else v.decode()


def show(s, n=60):
    if s is None:
        return 'none'
    if isinstance(s, bytes):
        s = s.decode('utf-8', 'replace')
    return str(s).replace('\n', '/')[:n]


# ------------------------------------------------------------------------------
class DispatcherBench(object):
    '''a real DefaultWorker object (no __init__) with the real dispatchers
       registered, each wrapped by a before/after recorder'''

    def _make_worker(self, ncores, ngpus, cls=None):
        cls = cls or wd.DefaultWorker
        w = cls.__new__(cls)
        w._log  = rpshim.NullLog()
        w._prof = rpshim.NullLog()
        w._uid  = WORKER_UID
        w._raptor_id = MASTER_UID
        w._sbox = sandbox()
        w._task_env = {k: v for k, v in os.environ.items()
                       if not k.startswith('RP_') and not k.startswith('RPV_')}
        w._n_cores, w._n_gpus = ncores, ngpus
        w._rlock, w._plock = mt.Lock(), mt.Lock()
        w._resources = {'cores': [0] * ncores, 'gpus': [0] * ngpus}
        w._res_evt = mock.Mock()
        w._pool    = dict()
        w._modes   = dict()
        w.register_mode(rp.TASK_FUNC,  w._dispatch_func)
        w.register_mode(rp.TASK_METH,  w._dispatch_meth)
        w.register_mode(rp.TASK_EVAL,  w._dispatch_eval)
        w.register_mode(rp.TASK_EXEC,  w._dispatch_exec)
        w.register_mode(rp.TASK_PROC,  w._dispatch_proc)
        w.register_mode(rp.TASK_SHELL, w._dispatch_shell)
        # payload functions are methods of the worker implementation
        for k in KINDS:
            setattr(w, 'pay_' + k, globals()['pay_' + k])
        w.pay_rank = pay_rank
        self._tenv_owner = w
        for short, mode in MODES.items():
            if short != 'exe':
                w._modes[mode] = self._wrap(short, w._modes[mode])
        return w

    # --------------------------------------------------------------------------
    def snap(self):
        def tok(o, orig):
            return 'orig' if o is orig else 'other'
        s = {'nenv': len(os.environ),
             'out' : tok(sys.stdout, self._orig_out), 'err': tok(sys.stderr, self._orig_err)}
        for k in TRACKED:
            s[k[4:]]       = os.environ.get(k, 'none')
            s['p' + k[4:]] = cgetenv(k)
        # the serving process' base environment for sub-processes
        tenv = getattr(self, '_tenv_owner', None)
        tenv = tenv._task_env if tenv is not None else {}
        s['tT']    = str(tenv.get('RPV_T', 'none'))
        s['ntenv'] = len(tenv)
        return s

    def _record(self, short, task, before, res, raised):
        r = self.reqs[task['uid']]
        if 'rk' in r:        # MPI request: this rank's own outcome
            kind = r['rk'][task['ranks'].index(task['rank'])]
            if kind == 'ok':
                kind = r.get('envt') if r.get('envt', 'none') != 'none' else 'ret'
        else:
            kind = r['kind']
        ev = {'uid': task['uid'], 'rank': int(task.get('rank', -1)), 'mode': short, 'kind': kind, 'b': before, 'a': self.snap(),
              'returned': False, 'ret': 'none', 'val': 'none', 'out': 'none', 'errh': 'none',
              'exc': False, 'raised': raised}
        if raised == 'none' and isinstance(res, tuple) and len(res) == 5:
            out, err, ret, val, exc = res
            ev.update({'returned': True, 'ret': str(ret), 'out': show(out),
                       'val': 'none' if val is None else show(repr(val)),
                       'errh': '' if err is None else show(err),
                       'exc': bool(exc and exc[0] is not None)})
        self.log('Call', **ev)

    def _wrap(self, short, real):
        bench = self
        if asyncio.iscoroutinefunction(real):
            async def call(task):
                bench._orig_out, bench._orig_err = sys.stdout, sys.stderr
                before = bench.snap()
                try:
                    res = await real(task)
                except BaseException as e:
                    bench._record(short, task, before, None, type(e).__name__)
                    raise
                bench._record(short, task, before, res, 'none')
                return res
        else:
            def call(task):
                bench._orig_out, bench._orig_err = sys.stdout, sys.stderr
                before = bench.snap()
                try:
                    res = real(task)
                except BaseException as e:
                    bench._record(short, task, before, None, type(e).__name__)
                    raise
                bench._record(short, task, before, res, 'none')
                return res
        return call


# ------------------------------------------------------------------------------
class RaptorRig(DispatcherBench):

    def __init__(self, reqs, script=None, seed=0, ncores=3, ngpus=2, max_ops=2000):
        '''
        reqs   : dict uid -> req()
        script : None (seeded random schedule) or list of operations
                   ('dispatch', uid) ('take', uid) ('finish', uid, sched)
                   ('race', uid, sched)
                   ('deliver', uid, n) ('result', uid) ('localdone', uid, ec)
                   ('inject', uid, ec, exc[, absent])
                 operations which are not enabled when their turn comes are
                 skipped; once the script is used up the rig drives the rest to
                 the end (first enabled operation).
        '''
        self.reqs, self.ncores, self.ngpus = reqs, ncores, ngpus
        self.rng     = random.Random(seed)
        self.script  = list(script) if script is not None else None
        self.max_ops = max_ops
        self.nops    = 0

        self.events    = []
        self.published = []
        self.procs     = {}        # uid -> dispatch process (recorder)
        self.resq      = []        # worker-internal result queue
        self.mresq     = []        # result queue worker -> master
        self.wq        = []        # request queue master -> worker
        self.agent     = []        # pushed to the agent's pipeline by the master
        self.pick      = None
        self.nres      = 0
        self.ctl       = None
        self.racing    = False
        self.race_pid  = 0
        self.wdead     = False
        self.blocked   = False
        self.undisp    = sorted(reqs)
        self.running   = []        # spawned, dispatch process not finished
        self.stuck     = False
        self._orig_out, self._orig_err = sys.stdout, sys.stderr

        self.penv = ProcEnv()
        self.w = self._make_worker(ncores, ngpus)
        self.w._res_put      = Recorder(self._on_res_put)
        self.w._result_queue = FakeResultQueue(self)
        self.m = self._make_master()
        self._hook_worker()

        self.tasks = {}
        for uid, r in reqs.items():
            self.tasks[uid] = describe(uid, r)
            self.tasks[uid].update({'cores': r['c'], 'gpus': r['g']})

    # --------------------------------------------------------------------------
    def _make_master(self):
        m = ms.Master.__new__(ms.Master)
        m._uid   = MASTER_UID
        m._pid   = 'pilot.0000'
        m._log   = rpshim.NullLog()
        m._prof  = rpshim.NullLog()
        m._cfg   = ru.Config(from_dict={})
        m._psbox = sandbox()
        m._ssbox = sandbox()
        m._rsbox = sandbox()
        m._workers = dict()
        m._task_service_data = dict()
        sess = mock.Mock()
        sess._get_task_sandbox = lambda task, pilot: \
            'file://localhost%s/%s/' % (sandbox(), task['uid'])
        m._session    = sess
        m._publishers = {rpc.STATE_PUBSUB: FakePub(self), rpc.CONTROL_PUBSUB: FakePub(self)}
        m._outputs    = {rps.AGENT_STAGING_INPUT_PENDING : Recorder(self._on_to_agent),
                         rps.AGENT_STAGING_OUTPUT_PENDING: Recorder(self._on_master_out)}
        m._req_put    = Recorder(self._on_req_put)
        return m

    def _hook_worker(self):
        rig, w = self, self.w
        real_alloc, real_dealloc = w._alloc, w._dealloc

        def _alloc(task):
            ok = real_alloc(task)
            if ok:
                s = task['slots'][0]
                rig.log('Alloc', uid=task['uid'], sc=list(s['cores']), sg=list(s['gpus']))
            return ok

        def _dealloc(task):
            res = real_dealloc(task)
            rig.log('Dealloc', uid=task['uid'])
            return res
        w._alloc, w._dealloc = _alloc, _dealloc

    # --------------------------------------------------------------------------
    def log(self, ev, **kw):
        e = {'ev': ev}
        e.update(kw)
        e['cores'] = [int(x) for x in self.w._resources['cores']]
        e['gpus']  = [int(x) for x in self.w._resources['gpus']]
        e['npool'] = len(self.w._pool)
        self.events.append(e)

    # recorders ------------------------------------------------------------------
    def _on_req_put(self, tasks):
        self._to_worker += [t['uid'] for t in tasks]
        self.wq += [copy.deepcopy(t) for t in tasks]

    def _on_to_agent(self, tasks):
        self._to_agent += [t['uid'] for t in tasks]
        self._seen     += [t['uid'] for t in tasks if t.get('raptor_seen')]
        self.agent += [copy.deepcopy(t) for t in tasks]

    def _on_res_put(self, tasks):
        for t in tasks:
            ec = t.get('exit_code')
            self.log('ResPut', uid=t['uid'], ec='none' if ec is None else str(ec),
                     exc=bool(t.get('exception')))
            self.mresq.append(copy.deepcopy(t))

    def _on_master_out(self, tasks):
        for t in tasks:
            ec = t.get('exit_code')
            self.log('MResult', uid=t['uid'], ec='none' if ec is None else str(ec),
                     target=str(t.get('target_state') or 'none'), state=str(t.get('state')))

    # operations -----------------------------------------------------------------
    def do_dispatch(self, uids):
        uids = [u for u in uids if u in self.undisp]
        if not uids:
            return
        for u in uids:
            self.undisp.remove(u)
        self._to_worker, self._to_agent, self._seen = [], [], []
        tasks = [copy.deepcopy(self.tasks[u]) for u in uids]
        self.m._request_cb(tasks)
        failed = [t['uid'] for t in tasks if t.get('state') == rps.FAILED]
        self.log('MDispatch', uids=list(uids), to_worker=self._to_worker,
                 to_agent=self._to_agent, seen=self._seen, failed=failed)

    def do_take(self, n=1):
        if self.blocked or not self.wq:
            return
        tasks, self.wq = self.wq[:n], self.wq[n:]
        for t in tasks:
            self.log('Take', uid=t['uid'])
        self.blocked = True
        try:
            self.w._request_cb(tasks)
        finally:
            self.blocked = False

    def do_race(self, sched):
        '''the next request of the queue, all of it at once: the real _request_cb
           (logical thread Q), the real _result_watcher (W) and the request's
           dispatch process (P, its child C, started by Q) take turns; schedule
           points: _plock, registering / removing the pid in _pool, the result
           queue, and those of the dispatch pair.  sched: string over Q W P C,
           or a chooser.'''
        if self.blocked or not self.wq:
            return
        task = self.wq[0]
        r    = self.reqs[task['uid']]
        if r['c'] > self.w._resources['cores'].count(0) or \
           r['g'] > self.w._resources['gpus'].count(0) or r['sf']:
            return self.do_take(1)                # would wait for resources first
        self.wq.pop(0)
        uid = task['uid']
        self.log('Take', uid=uid)
        self.nres = 0

        if callable(sched):
            chooser = sched
        else:
            rest = list(sched)

            def chooser(en, ctl):
                while rest:
                    n = rest.pop(0)
                    if n in en:
                        return n
                for n in ('Q', 'C', 'P', 'W'):
                    if n in en:
                        return n

        def watcher():
            try:
                self.w._result_watcher()
            except SC.Abort:
                raise
            except BaseException as ex:           # the result thread has ended
                self.wdead = True
                self.log('WatcherDied', uid=uid, exc=type(ex).__name__)

        self.ctl = ctl = Ctl(chooser, max_steps=400)
        self.racing  = True
        plock, pool  = self.w._plock, self.w._pool
        self.w._plock = SC.CLock(ctl, 'plock')
        self.w._pool  = PointDict(self, pool)
        self.penv.enter()
        dead = False
        try:
            with mock.patch.object(wd, 'os', _OsProxy(lambda: self.race_pid)), \
                 mock.patch.object(setproctitle, 'setproctitle', lambda *a: None):
                ctl.spawn('Q', lambda: self.w._request_cb([task]))
                if not self.wdead:
                    ctl.spawn('W', watcher)
                try:
                    ctl.run()
                except SC.Deadlock as e:          # W waits for more: the normal end
                    dead = 'step limit' in str(e) or any(
                        ctl.threads[n].state != 'done' for n in ctl.order if n != 'W')
                    ctl.abort()
        finally:
            self.ctl, self.racing = None, False
            self.w._plock, self.w._pool = plock, dict(self.w._pool)
            self.penv.leave()
        self.log('Fin', uid=uid, o=''.join(c for _, c in ctl.choices), nres=self.nres,
                 deadlock=bool(dead))
        return ctl

    def do_finish(self, uid, sched):
        '''the dispatch process of `uid` runs: real _dispatch (logical thread
           "P") and its real _worker_proc (logical thread "C").
           sched: string over P / C (which thread takes the next step; entries
           which are not enabled are skipped), followed by "child first";
           'nat' == '' (child first), 'timeout' == parent first; or a chooser
           callable (exhaustive exploration).'''
        proc = self.procs.get(uid)
        if proc is None or getattr(proc, 'finished', False):
            return
        proc.finished = True
        if uid in self.running:
            self.running.remove(uid)
        task, env = copy.deepcopy(proc.args[0]), dict(proc.args[1])
        self.nres = 0

        if callable(sched):
            chooser = sched
        else:
            rest   = list({'nat': '', 'timeout': 'P' * 8}.get(sched, sched))
            prefer = 'P' if sched == 'timeout' else 'C'

            def chooser(en, ctl):
                while rest:
                    n = rest.pop(0)
                    if n in en:
                        return n
                return prefer if prefer in en else en[0]

        def parent():
            try:
                proc.target(task, env)
            except SystemExit:
                pass

        self.ctl = ctl = Ctl(chooser, max_steps=200)
        self.penv.enter()
        dead = False
        try:
            with mock.patch.object(wd, 'os', _OsProxy(lambda: proc.pid)), \
                 mock.patch.object(setproctitle, 'setproctitle', lambda *a: None):
                ctl.spawn('P', parent)
                try:
                    ctl.run()
                except SC.Deadlock:
                    dead = True
                    ctl.abort()
        finally:
            self.ctl = None
            self.penv.leave()
        self.log('Fin', uid=uid, o=''.join(c for _, c in ctl.choices), nres=self.nres,
                 deadlock=dead)
        return ctl

    def do_deliver(self, uid=None, n=None):
        if self.wdead or not self.resq:
            return
        cand = [e for e in self.resq if e['uid'] == uid and e['n'] == n] or \
               [e for e in self.resq if e['uid'] == uid] or self.resq
        e = cand[0]
        self.resq.remove(e)
        self.pick = e
        self.log('Deliver', uid=e['uid'], n=e['n'])
        try:
            self.w._result_watcher()
        except StopWatcher:
            pass
        except BaseException as ex:               # the result thread has ended
            self.wdead = True
            self.log('WatcherDied', uid=e['uid'], exc=type(ex).__name__)

    def do_result(self, uid=None):
        if not self.mresq:
            return
        cand = [t for t in self.mresq if t['uid'] == uid] or self.mresq
        t = cand[0]
        self.mresq.remove(t)
        self.m._result_cb([t])

    def do_inject(self, uid, ec, exc, absent=False):
        '''a worker sends the request back as ...: exit code `ec` ('none': not
           set; absent: the key is not there at all), exception set or not.
           Stands for any worker; the real Master._result_cb has to classify it.'''
        cand = [t for t in self.wq if t['uid'] == uid]
        if not cand:
            return
        t = cand[0]
        self.wq.remove(t)
        t['exit_code'] = None if ec == 'none' else int(ec)
        if ec == 'none' and absent:
            del t['exit_code']
        if exc:
            t['exception']        = "RuntimeError('injected')"
            t['exception_detail'] = 'injected'
        self.log('Inject', uid=uid, ec=str(ec), exc=bool(exc))
        self._on_res_put([t])

    def do_localdone(self, uid, ec):
        cand = [t for t in self.agent if t['uid'] == uid]
        if not cand:
            return
        t = cand[0]
        self.agent.remove(t)
        # the pilot's executor ran it: exit code, target state, state update
        t['exit_code'] = int(ec)
        if self.rng.random() < 0.5:
            t['target_state'] = rps.DONE if int(ec) == 0 else rps.FAILED
        self.log('Local', uid=uid, seen=bool(t.get('raptor_seen')), ec=str(int(ec)))
        self.m._state_cb(rpc.STATE_PUBSUB, {'cmd': 'raptor_state_update', 'arg': [t]})

    # schedule -------------------------------------------------------------------
    def enabled(self):
        ops = []
        if self.undisp:
            ops.append(('dispatch', self.undisp[0]))
        if self.wq and not self.blocked:
            ops.append(('take', self.wq[0]['uid']))
            ops.append(('race', self.wq[0]['uid'],
                        ''.join(self.rng.choice('QWPC') for _ in range(24))))
        for u in self.running:
            ops.append(('finish', u, 'nat'))
            if self.reqs[u]['tmo']:
                ops.append(('finish', u, 'timeout'))
                ops.append(('finish', u, ''.join(self.rng.choice('PC') for _ in range(12))))
        if not self.wdead:
            for e in self.resq:
                ops.append(('deliver', e['uid'], e['n']))
        for t in self.mresq:
            ops.append(('result', t['uid']))
        for t in self.agent:
            ops.append(('localdone', t['uid'], self.rng.choice(['0', '1'])))
        return ops

    def is_enabled(self, op):
        k = op[0]
        if k == 'dispatch' : return op[1] in self.undisp
        if k in ('take', 'race'): return bool(self.wq) and not self.blocked
        if k == 'finish'   : return op[1] in self.running
        if k == 'deliver'  : return not self.wdead and any(e['uid'] == op[1] for e in self.resq)
        if k == 'result'   : return any(t['uid'] == op[1] for t in self.mresq)
        if k == 'localdone': return any(t['uid'] == op[1] for t in self.agent)
        if k == 'inject'   : return any(t['uid'] == op[1] for t in self.wq)
        return False

    def next_op(self):
        self.nops += 1
        if self.nops > self.max_ops:
            return None
        if self.script is not None:
            while self.script:
                op = tuple(self.script.pop(0))
                if self.blocked and op[0] in ('take', 'race'):
                    self.script.insert(0, op)      # not before the current one started
                    break
                if self.is_enabled(op):
                    return op
            ops = self.enabled()
            return ops[0] if ops else None
        ops = self.enabled()
        return self.rng.choice(ops) if ops else None

    def apply(self, op):
        k = op[0]
        if   k == 'dispatch' :
            uids = [op[1]]
            if self.script is None and len(self.undisp) > 1 and self.rng.random() < 0.3:
                uids = self.undisp[:2]
            self.do_dispatch(uids)
        elif k == 'take'     :
            n = 2 if (self.script is None and len(self.wq) > 1 and self.rng.random() < 0.3) else 1
            self.do_take(n)
        elif k == 'race'     : self.do_race(op[2])
        elif k == 'finish'   : self.do_finish(op[1], op[2])
        elif k == 'deliver'  : self.do_deliver(op[1], op[2] if len(op) > 2 else None)
        elif k == 'result'   : self.do_result(op[1])
        elif k == 'localdone': self.do_localdone(op[1], op[2])
        elif k == 'inject'   : self.do_inject(*op[1:])

    def sleep(self, dt):
        '''the wait-for-resources poll of DefaultWorker._request_cb'''
        self.log('Poll')
        op = self.next_op()
        if op is None:
            raise Stuck()
        self.apply(op)

    def run(self):
        fake_time = mock.Mock()
        fake_time.sleep = self.sleep
        fake_time.time  = lambda: 0.0
        outer = ProcEnv()
        outer.enter()
        try:
            with mock.patch.object(wd, 'time', fake_time), \
                 mock.patch.object(wd, 'mp', FakeMP(self)):
                try:
                    while True:
                        op = self.next_op()
                        if op is None:
                            break
                        self.apply(op)
                except Stuck:
                    self.stuck = True
        finally:
            outer.leave()
        self.log('End', stuck=bool(self.stuck), wdead=bool(self.wdead),
                 pending=len(self.resq) + len(self.mresq) + len(self.wq) + len(self.agent)
                         + len(self.running) + len(self.undisp))
        return self.trace()

    def trace(self):
        return {'family': 'worker', 'uids': sorted(self.reqs), 'reqs': self.reqs,
                'events': self.events}


# ------------------------------------------------------------------------------
class ChainRig(DispatcherBench):
    '''the real dispatchers, called in-process one after the other'''

    def __init__(self, calls):
        '''calls: list of (mode, kind)'''
        self.reqs   = {'c%d' % (i + 1): req(mode=c[0], kind=c[1], via=(c[2] if len(c) > 2 else 'attr'))
                       for i, c in enumerate(calls)}
        self.order  = ['c%d' % (i + 1) for i in range(len(calls))]
        self.events = []
        self._orig_out, self._orig_err = sys.stdout, sys.stderr
        self.penv = ProcEnv()
        self.w = self._make_worker(1, 0)

    def log(self, ev, **kw):
        e = {'ev': ev, 'cores': [0], 'gpus': [], 'npool': 0}
        e.update(kw)
        self.events.append(e)

    def run(self):
        self.penv.enter()
        try:
            for uid in self.order:
                r    = self.reqs[uid]
                task = describe(uid, r)
                disp = self.w.get_dispatcher(MODES[r['mode']])
                try:
                    if r['mode'] == 'func': asyncio.run(disp(task))
                    else                  : disp(task)
                except BaseException:
                    pass
        finally:
            self.penv.leave()
        return {'family': 'chain', 'uids': sorted(self.reqs), 'reqs': self.reqs,
                'events': self.events}


# ------------------------------------------------------------------------------
class FakePutter(object):
    rig = None

    def __init__(self, queue, addr):
        self.queue, self.addr = queue, addr

    def put(self, tasks):
        FakePutter.rig.rlog('SFwd', queue=self.queue, uids=[t['uid'] for t in ru.as_list(tasks)])


class RoutingRig(SR.SchedRig):
    '''the scheduler's raptor hand-off: real _schedule_incoming and control_cb
       (register / unregister_raptor_queue, and cancel_tasks over the tasks kept
       for a master which has not registered yet) of the scheduler process part'''

    def __init__(self, lay, rinfo, script=None, seed=0, p_env=0.35, max_cancel=0):
        '''rinfo: dict uid -> {'rid': raptor id or '', 'seen': bool, 'worker': bool}
           script actions (beyond SchedRig's): ('register', name) ('unregister', name)
           ('rcancel', [uids]); max_cancel: cancel requests of the random environment'''
        self.rinfo   = rinfo
        self.ncancel, self.max_cancel = 0, max_cancel
        self.revents = []
        self.masters = sorted({r['rid'] for r in rinfo.values() if r['rid'] not in ('', '*')})
        self.registered, self.unregistered = set(), set()
        shapes = {u: SR.shape(1, 1) for u in rinfo}
        SR.SchedRig.__init__(self, lay, shapes, seed=seed, script=script, p_env=p_env,
                             cancelable=[])

    def _task(self, uid, sh):
        t  = SR.SchedRig._task(self, uid, sh)
        ri = self.rinfo[uid]
        t['description']['raptor_id'] = ri['rid']
        t['description']['mode'] = rp.RAPTOR_WORKER if ri['worker'] else rp.TASK_EXECUTABLE
        if ri['seen']:
            t['raptor_seen'] = True
        return t

    def rlog(self, ev, **kw):
        e = {'ev': ev, 'cores': [], 'gpus': [], 'npool': 0}
        e.update(kw)
        self.revents.append(e)

    def log(self, ev, **kw):
        SR.SchedRig.log(self, ev, **kw)
        if   ev == 'Arrive': self.rlog('SArrive', uids=list(kw['uids']))
        elif ev == 'Try'   : self.rlog('SLocal', uid=kw['uid'])
        elif ev == 'Adv' and kw['state'] == 'failed':
            self.rlog('SFail', uid=kw['uid'])
        elif ev == 'Adv' and kw['state'] == 'canceled':
            self.rlog('SCancel', uid=kw['uid'])

    def cached(self):
        out = []
        for name in sorted(self.child._raptor_tasks):
            out += [t['uid'] for t in self.child._raptor_tasks[name]]
        return out

    def do_env(self, act):
        if act[0] == 'register':
            self.registered.add(act[1])
            self.rlog('SReg', queue=act[1])
            self.child.control_cb(rpc.CONTROL_PUBSUB, {
                'cmd': 'register_raptor_queue',
                'arg': {'name': act[1], 'queue': act[1], 'addr': 'tcp://none'}})
            self.rlog('SRegDone', queue=act[1], after=self.cached())
        elif act[0] == 'unregister':
            self.unregistered.add(act[1])
            self.rlog('SUnreg', queue=act[1])
            self.child.control_cb(rpc.CONTROL_PUBSUB, {
                'cmd': 'unregister_raptor_queue', 'arg': {'name': act[1]}})
        elif act[0] == 'rcancel':
            # a cancel request as the scheduler process gets it on the control channel
            uids, before = list(act[1]), self.cached()
            self.ncancel += 1
            self.rlog('SCancelReq', uids=uids, before=before)
            self.child.control_cb(rpc.CONTROL_PUBSUB, {'cmd': 'cancel_tasks',
                                                       'arg': {'uids': list(uids)}})
            self.rlog('SCancelDone', uids=uids, before=before, after=self.cached())
        else:
            SR.SchedRig.do_env(self, act)

    def enabled_env(self):
        acts = SR.SchedRig.enabled_env(self)
        if self.ncancel < self.max_cancel and self.cached():
            pool = sorted(self.rinfo)
            acts.append(('rcancel', self.rng.sample(pool, self.rng.randint(1, min(3, len(pool))))))
        for m in self.masters:
            if m not in self.registered:
                acts.append(('register', m))
            elif m not in self.unregistered and self.rng.random() < 0.3:
                acts.append(('unregister', m))
        return acts

    def run(self):
        FakePutter.rig = self
        with mock.patch.object(ru.zmq, 'Putter', FakePutter):
            SR.SchedRig.run(self)
        back = []
        for name, ts in self.child._raptor_tasks.items():
            back += [t['uid'] for t in ts]
        self.rlog('SEnd', backlog=sorted(back), queues=sorted(self.child._raptor_queues.keys()))
        rinfo = {u: {'rid': r['rid'] or 'none', 'seen': bool(r['seen']), 'worker': bool(r['worker'])}
                 for u, r in self.rinfo.items()}
        return {'family': 'sched', 'uids': sorted(self.rinfo), 'reqs': rinfo,
                'events': self.revents}


# ------------------------------------------------------------------------------
# MPI worker (raptor/worker_mpi.py)
#
MPI_MODES = ('func', 'eval', 'shell')
MPI_ENV   = {'RP_TASK_SANDBOX': None, 'RP_PILOT_ID': 'pilot.0000', 'RP_SESSION_ID': 'rp.session.verif',
             'RP_RESOURCE': 'local.localhost', 'RP_RESOURCE_SANDBOX': None,
             'RP_SESSION_SANDBOX': None, 'RP_PILOT_SANDBOX': None, 'RP_GTOD': '/bin/true',
             'RP_PROF': '/bin/true', 'RP_PROF_TGT': '/dev/null'}


def mpi_req(n=1, mode='func', rk=None, pf=-1, envt='none'):
    '''a request for the MPI worker: n ranks (may exceed what the worker has),
       rk[i] in ok | raise | sig is what the call does on the i-th of its ranks
       (sig: shell only); pf >= 0: sending the copy for the pf-th rank fails;
       envt (shell only): 'tenv' - the request brings RPV_T in its environment and
       its ranks print it; 'probe' - it brings none and its ranks print what they
       find (the ranks serve many requests in one process)'''
    rk = list(rk or ['ok'] * n)
    assert len(rk) == n and mode in MPI_MODES
    assert all(o in ('ok', 'raise') or (o == 'sig' and mode == 'shell') for o in rk)
    assert envt == 'none' or mode == 'shell'
    return dict(c=n, g=0, mode=mode, kind='ret', rk=rk, tmo=False, sf=False, via='attr',
                pf=int(pf), envt=envt)


def describe_mpi(uid, r):
    mode, rk = r['mode'], r['rk']
    d = {'uid': uid, 'mode': MODES[mode], 'raptor_id': MASTER_UID, 'ranks': r['c']}
    bad = tuple(str(i) for i, o in enumerate(rk) if o == 'raise')
    if mode == 'func':
        d['function'] = 'pay_rank'
        d['args']     = [list(rk)]
    elif mode == 'eval':
        d['code'] = "[print('partial'), 1 / 0] if os.environ['RP_RANK'] in %r else 7" % (bad,)
    else:
        d['command'] = 'case $RP_RANK in ' + ''.join(
            '%d) echo partial; exit 3;; ' % i if o == 'raise' else '%d) kill -9 $$;; ' % i
            for i, o in enumerate(rk) if o != 'ok') + 'esac; ' + \
            {'tenv': SH_CODE['tenv'], 'probe': SH_CODE['probe']}.get(r.get('envt'), 'true')
        if r.get('envt') == 'tenv':
            d['environment'] = {'RPV_T': 'v'}
    return make_task(d)


class AbortLog(rpshim.NullLog):
    '''logger stand-in; lets a logical thread which is being unwound leave the
       catch-all handlers of the real run() loops'''

    def __init__(self, rig):
        self.__dict__['rig'] = rig

    def exception(self, *a, **k):
        ctl = self.rig.ctl
        if ctl is not None and ctl.aborting:
            raise SC.Abort()


class GEvent(object):
    '''the resource event of _Resources: wait() is a schedule point which is
       enabled once the event is set'''

    def __init__(self, rig):
        self.rig, self.flag = rig, True

    def _point(self, name):
        # fine mode: every operation on the event is a schedule point
        ctl = self.rig.ctl
        if self.rig.fine and ctl is not None and ctl.current():
            ctl.point(name)

    def set(self):
        self._point('evt.set')
        self.flag = True

    def clear(self):
        self._point('evt.clear')
        self.flag = False

    def is_set(self):
        self._point('evt.is_set')
        return self.flag

    def wait(self, timeout=None):
        self.rig.log('Poll')
        self.rig.ctl.point('evt', wants=Gate(lambda: not self.flag))
        return self.flag


class PointList(list):
    '''the rank map of _Resources: counting the free ranks is a schedule point'''
    rig = None

    def count(self, x):
        ctl = self.rig.ctl
        if self.rig.fine and ctl is not None and ctl.current():
            ctl.point('count')
        return list.count(self, x)


class MpiGetter(object):
    rig = None

    def __init__(self, channel=None, url=None, **kw):
        self.channel = channel

    def get_nowait(self, qname=None, timeout=None):
        rig = MpiGetter.rig
        if rig.ctl.aborting:
            raise SC.Abort()
        rig.ctl.point('get:%s' % self.channel,
                      wants=Gate(lambda: not rig.q_ready(self.channel, qname)))
        return rig.q_take(self.channel, qname)


class MpiPutter(object):
    def __init__(self, channel=None, url=None, **kw):
        self.channel = channel

    def put(self, msg, qname=None):
        MpiGetter.rig.q_put(self.channel, qname, msg)


class FakeComm(object):
    def __init__(self, rank, size):
        self.rank, self.size = rank, size

    def Free(self):
        pass


class FakeGroup(object):
    def __init__(self, ranks=None):
        self.ranks = ranks

    def Incl(self, ranks):
        return FakeGroup(list(ranks))

    def Free(self):
        pass


class FakeWorld(object):
    def __init__(self, rank):
        self.rank = rank

    def Create_group(self, group):
        return FakeComm(group.ranks.index(self.rank), len(group.ranks))


class MPIRig(RaptorRig):
    '''rank 0's two threads and the worker ranks of the MPI worker as logical
       threads (T = _TaskPuller.run, U = _ResultPusher.run, K<k> =
       MPIWorkerRank.run of rank k), all real; the ZMQ end points are in-memory
       queues (messages are deep-copied) whose get_nowait is the schedule point;
       the master side is the real Master._result_cb'''

    def __init__(self, reqs, script=None, seed=0, nranks=3, max_ops=3000, fine=False,
                 chooser=None):
        '''script: ('submit', uid) ('T',) ('K', k) ('U', uid, k) | ('U',) ('result', uid)
           fine  : _Resources._alloc / _dealloc step by step - schedule points at
                   the resource lock, the count of free ranks and every operation
                   on the resource event (is_set / clear / wait / set)
           chooser: takes over once the script is used up (exploration)'''
        self.reqs, self.nranks = reqs, nranks
        self.fine, self.ext, self.waiting = bool(fine), chooser, 'none'
        self.taken = []
        self.rng     = random.Random(seed)
        self.script  = list(script) if script is not None else None
        self.max_ops = max_ops
        self.events, self.published = [], []
        self.ctl     = None
        self.tq, self.rresq, self.mresq = [], [], []
        self.rankq   = {k: [] for k in range(nranks)}
        self.upick   = None
        self.unsub   = sorted(reqs)
        self.agent, self.wq, self.running, self.resq = [], [], [], []
        self._orig_out, self._orig_err = sys.stdout, sys.stderr
        env = {k: (v if v is not None else sandbox()) for k, v in MPI_ENV.items()}
        self.penv = ProcEnv(extra=env)

        log = AbortLog(self)
        self.base = self._make_worker(nranks, 0, cls=wm.MPIWorker)
        self.base._log = log
        self.res  = wm._Resources(log, rpshim.NullLog(), nranks)
        self.res._res_evt = GEvent(self)
        pl = PointList(self.res._resources['cores'])
        pl.rig = self
        self.res._resources['cores'] = pl
        real_alloc, real_dealloc, rig = self.res._alloc, self.res._dealloc, self

        def _alloc(task):
            ranks = real_alloc(task)
            rig.waiting = 'none'
            rig.log('Alloc', uid=task['uid'], sc=list(ranks), sg=[])
            return ranks

        def _dealloc(task):
            # (fine mode: other threads log while this one is between freeing the
            # ranks and the end of _dealloc; the release is one event, at its end)
            rig.in_dealloc = list(task['ranks'])
            try:
                real_dealloc(task)
            finally:
                rig.in_dealloc = []
            rig.log('Dealloc', uid=task['uid'])
        self.in_dealloc = []
        self.res._alloc, self.res._dealloc = _alloc, _dealloc

        self.puller = wm._TaskPuller('wtq', 'wrq', 'rtq', mock.Mock(), self.res, log,
                                     rpshim.NullLog())
        self.pusher = wm._ResultPusher('wrq', 'rrq', mock.Mock(), self.res, log,
                                       rpshim.NullLog())
        self.penv.enter()
        try:
            self.ranks = [wm.MPIWorkerRank('rtq', 'rrq', {'world': FakeWorld(k), 'group': FakeGroup(),
                                                           'rank': k, 'ranks': nranks},
                                           mock.Mock(), log, rpshim.NullLog(), self.base)
                          for k in range(nranks)]
        finally:
            self.penv.leave()
        self.m = self._make_master()
        self.tasks = {}
        for uid, r in reqs.items():
            self.tasks[uid] = describe_mpi(uid, r)
            self.tasks[uid].update({'name': 'name.' + uid,
                                    'task_sandbox_path': '%s/%s' % (sandbox(), uid)})

    def log(self, ev, **kw):
        e = {'ev': ev}
        e.update(kw)
        e['cores'] = [1 if i in self.in_dealloc else int(x)
                      for i, x in enumerate(self.res._resources['cores'])]
        e['gpus']  = [0, 0]
        e['npool'] = 0
        self.events.append(e)

    # in-memory queues -------------------------------------------------------------
    def q_ready(self, channel, qname):
        if channel == 'raptor_tasks': return bool(self.tq)
        if channel == 'rank_tasks'  : return bool(self.rankq[int(qname)])
        if channel == 'rank_results': return bool(self.rresq)
        return False

    def q_take(self, channel, qname):
        if channel == 'raptor_tasks':
            t = self.tq.pop(0)
            self.log('Take', uid=t['uid'])
            self.waiting = t['uid']
            return [t]
        if channel == 'rank_tasks':
            return [self.rankq[int(qname)].pop(0)]
        cand = [t for t in self.rresq if (t['uid'], t['rank']) == self.upick] or self.rresq
        self.upick = None
        t = cand[0]
        self.rresq.remove(t)
        return [t]

    def q_put(self, channel, qname, msg):
        for t in ru.as_list(msg):
            t = copy.deepcopy(t)
            if channel == 'rank_tasks':
                pf = self.reqs[t['uid']].get('pf', -1)
                if pf >= 0 and t['ranks'].index(t['rank']) == pf:
                    self.log('SendFail', uid=t['uid'], rank=int(t['rank']))
                    raise OSError('cannot send %s to rank %s' % (t['uid'], qname))
                self.rankq[int(qname)].append(t)
            elif channel == 'rank_results':
                self.rresq.append(t)
                self.log('RankDone', uid=t['uid'], rank=int(t['rank']), ec=str(t.get('exit_code')))
            elif channel == 'raptor_results':
                if self.waiting == t['uid']:
                    self.waiting = 'none'
                self._on_res_put([t])

    # schedule ---------------------------------------------------------------------
    def env_ops(self):
        ops = []
        if self.unsub:
            ops.append(('submit', self.unsub[0]))
        for t in self.mresq:
            ops.append(('result', t['uid']))
        return ops

    def env_apply(self, op):
        if op[0] == 'submit' and op[1] in self.unsub:
            self.unsub.remove(op[1])
            self.log('Submit', uid=op[1])
            self.tq.append(copy.deepcopy(self.tasks[op[1]]))
        elif op[0] == 'result':
            self.do_result(op[1])

    def thread_of(self, op):
        if op[0] == 'T': return 'T'
        if op[0] == 'U': return 'U'
        if op[0] == 'K': return 'K%d' % int(op[1])
        return None

    def choose(self, en, ctl):
        self.nops += 1
        if self.nops > self.max_ops:
            return None
        if self.init:
            return self.init.pop(0)
        if self.script is not None:
            while self.script:
                op = tuple(self.script.pop(0))
                name = self.thread_of(op)
                if name is None:
                    self.env_apply(op)
                    # an environment action may enable a thread which `en` lacks
                    en = ctl.enabled()
                elif name in en:
                    if name == 'U' and len(op) > 2:
                        self.upick = (op[1], int(op[2]))
                    return name
            for op in self.env_ops():
                self.env_apply(op)
            en = ctl.enabled()
            if self.ext is not None and en:
                c = self.ext(en, ctl)
                self.taken.append(c)
                return c
            return en[0] if en else None
        while True:
            opts = list(ctl.enabled()) + self.env_ops()
            o = opts[self.rng.randrange(len(opts))]
            if isinstance(o, tuple):
                self.env_apply(o)
                continue
            if o == 'U' and self.rresq:
                t = self.rresq[self.rng.randrange(len(self.rresq))]
                self.upick = (t['uid'], t['rank'])
            return o

    def env_step(self):
        '''no thread can run: the environment's turn'''
        if self.script is not None:
            while self.script:
                op = tuple(self.script.pop(0))
                if self.thread_of(op) is None:
                    self.env_apply(op)
                    return True
        ops = self.env_ops()
        if not ops:
            return False
        self.env_apply(ops[0] if self.script is not None else
                       ops[self.rng.randrange(len(ops))])
        return True

    def run(self):
        names = ['T', 'U'] + ['K%d' % k for k in range(self.nranks)]
        self.init, self.nops = list(names), 0
        fake_time = mock.Mock()
        fake_time.sleep = lambda dt: None
        fake_time.time  = lambda: 0.0
        MpiGetter.rig = self
        self.ctl = ctl = Ctl(self.choose, max_steps=self.max_ops + 100)
        if self.fine:
            self.res._res_lock = SC.CLock(ctl, 'res')
        self.penv.enter()
        try:
            with mock.patch.object(wm, 'time', fake_time), \
                 mock.patch.object(ru.zmq, 'Getter', MpiGetter), \
                 mock.patch.object(ru.zmq, 'Putter', MpiPutter):
                ctl.spawn('T', self.puller.run)
                ctl.spawn('U', self.pusher.run)
                for k, rk in enumerate(self.ranks):
                    ctl.spawn('K%d' % k, rk.run)
                while True:
                    try:
                        ctl.run()
                        break
                    except SC.Deadlock as e:
                        if 'step limit' in str(e) or not self.env_step():
                            break
                ctl.abort()
        finally:
            self.ctl = None
            self.penv.leave()
        self.log('End', stuck=False, wdead=False, waiting=self.waiting,
                 pending=len(self.tq) + len(self.rresq) + len(self.mresq) + len(self.unsub)
                         + sum(len(q) for q in self.rankq.values()))
        return {'family': 'mpi', 'uids': sorted(self.reqs), 'reqs': self.reqs,
                'events': self.events}
