'''
Executor rig: the REAL Popen executor (agent/executing/popen.py + base.py)
under the baton controller.  Logical threads:

  intake   : work([task]) for each accepted bulk (work -> _handle_task -> _launch_task)
  watcher  : the real _watch loop (_check_running)
  control  : _control_cb(cancel_tasks) -> control_cb -> cancel_task
  timeout  : the real _to_watcher loop (virtual clock)
  proc:<t> : the task's process exits (one step; exit code chosen by the scenario)

Schedule points sit at every access to state shared between those threads:
_check_lock, _tasks, task['proc'], proc.poll/wait, the watch queue, the cancel
list (is_canceled), kill, publish, advance, time.sleep / time.time.
One event is recorded per point (after the operation) for ExecutorTrace.tla.
'''

import copy
import queue
import random

from unittest import mock

from .. import rpshim
from .. import sched_ctl as SC

rp  = rpshim.load()
ru  = __import__('radical.utils', fromlist=['x'])
rps = rp.states
rpc = rp.constants

from radical.pilot.agent.executing import popen as pmod
from radical.pilot.agent.executing import base  as bmod
from radical.pilot.utils import component as cmod


class Gate(object):
    '''a condition a thread waits for: owner is None <=> open'''
    def __init__(self, closed=True):
        self.owner = 'closed' if closed else None


class LaunchError(Exception):
    pass


class Scenario(object):
    '''
    tasks  : list of dict(uid, exit=int, fault in {none, nolauncher, script, spawn},
                          timeout=0|n (virtual seconds))
    cancels: list of uid lists (one control message each)
    bulks  : list of uid lists (intake bulks, in order)
    '''
    def __init__(self, tasks, cancels=(), bulks=None):
        self.tasks   = tasks
        self.cancels = [list(c) for c in cancels]
        self.bulks   = bulks or [[t['uid']] for t in tasks]

    def as_dict(self):
        return {'tasks': self.tasks, 'cancels': self.cancels, 'bulks': self.bulks}


class ExecRig(object):

    def __init__(self, scn, chooser, max_steps=3000):
        self.scn     = scn
        self.events  = []
        self.ctl     = SC.Controller(chooser, emit=self.emit, max_steps=max_steps)
        self.now     = 100.0
        self.step_no = 0
        self.done_handon = set()
        self.spec    = {t['uid']: t for t in scn.tasks}
        self.procs   = {}
        self.accepted = []
        self.finished_threads = set()
        self.to_registered = set()
        self.to_fired  = set()
        self.watched   = set()
        self.w_removed = set()
        self._build()

    # ----------------------------------------------------------------------
    def emit(self, who, ev, **kw):
        e = {'who': who, 'ev': ev, 'uid': kw.pop('uid', 'none')}
        e.update(kw)
        if ev == 'End':
            e['tasks']   = sorted(dict.keys(self.ex._tasks))
            e['hasproc'] = sorted(u for u, t in self.tasks.items() if dict.__contains__(t, 'proc'))
        self.events.append(e)

    def point(self, name, wants=None):
        self.ctl.point(name, wants=wants)

    # ----------------------------------------------------------------------
    def _build(self):
        rig = self
        ctl = self.ctl

        class TDict(dict):
            '''task dict: accesses to 'proc' are schedule points'''
            def get(self, k, d=None):
                if k == 'proc' and ctl.current():
                    rig.point('get_proc')
                    v = dict.get(self, k, d)
                    if v is None and ctl.current() == 'watcher':
                        rig.w_removed.add(dict.__getitem__(self, 'uid'))
                    rig.emit(ctl.current(), 'GetProc', uid=dict.__getitem__(self, 'uid'),
                             present=v is not None)
                    return v
                return dict.get(self, k, d)

            def __setitem__(self, k, v):
                if k == 'proc' and ctl.current():
                    rig.point('set_proc')
                    dict.__setitem__(self, k, v)
                    rig.emit(ctl.current(), 'Spawn', uid=dict.__getitem__(self, 'uid'))
                    return
                dict.__setitem__(self, k, v)

            def __delitem__(self, k):
                if k == 'proc' and ctl.current():
                    rig.point('del_proc')
                    had = dict.__contains__(self, k)
                    try:
                        dict.__delitem__(self, k)
                    finally:
                        rig.emit(ctl.current(), 'DelProc', uid=dict.__getitem__(self, 'uid'), had=had)
                    return
                dict.__delitem__(self, k)

            def __deepcopy__(self, memo):
                return {k: copy.deepcopy(v, memo) for k, v in dict.items(self) if k != 'proc'}

        class TasksDict(dict):
            '''Popen._tasks'''
            def update(self, other):
                rig.point('tasks_update')
                dict.update(self, other)
                for u in other:
                    rig.emit(ctl.current(), 'InsertTasks', uid=u)

            def get(self, k, d=None):
                rig.point('tasks_get')
                v = dict.get(self, k, d)
                rig.emit(ctl.current(), 'GetTask', uid=k, present=v is not None)
                return v

            def __contains__(self, k):
                rig.point('member')
                r = dict.__contains__(self, k)
                rig.emit(ctl.current(), 'Member', uid=k, res=r)
                return r

            def __delitem__(self, k):
                rig.point('del_tasks')
                try:
                    dict.__delitem__(self, k)
                finally:
                    rig.emit(ctl.current(), 'DelTasks', uid=k)

        class FakeProc(object):
            def __init__(self, uid):
                self.uid, self.code, self.killed = uid, None, False
                self.pid  = 4000 + len(rig.procs)
                self.gate = Gate(closed=True)        # opens at exit

            def poll(self):
                rig.point('poll')
                rig.emit(ctl.current(), 'Poll', uid=self.uid,
                         code='none' if self.code is None else str(self.code))
                return self.code

            def wait(self, timeout=None):
                rig.point('wait', wants=self.gate)
                if ctl.current() == 'watcher':
                    rig.w_removed.add(self.uid)
                rig.emit(ctl.current(), 'Wait', uid=self.uid, code=str(self.code))
                return self.code

        class WatchQueue(object):
            def __init__(self):
                self.items = []
            def put(self, task):
                rig.point('wq_put')
                self.items.append(task)
                rig.emit(ctl.current(), 'WatchPut', uid=task['uid'])
            def get_nowait(self):
                if not self.items:
                    raise queue.Empty()
                rig.point('wq_get')
                t = self.items.pop(0)
                rig.watched.add(t['uid'])
                rig.emit(ctl.current(), 'WatchGet', uid=t['uid'])
                return t

        class Launcher(object):
            def cancel_task(self, task, pid):
                rig.point('kill')
                p = rig.procs[task['uid']]
                p.killed = True
                rig.emit(ctl.current(), 'Kill', uid=task['uid'])

        class RM(object):
            def find_launcher(self, task):
                if rig.spec[task['uid']]['fault'] == 'nolauncher':
                    return None, None
                return Launcher(), 'FORK'
            def get_launcher(self, name):
                return Launcher()

        class Term(object):
            def is_set(self):
                who = ctl.current()
                if who == 'watcher':
                    return rig.all_settled()
                if who == 'timeout':
                    return rig.all_settled()
                return False

        class Pub(object):
            def __init__(self, name):
                self.name = name
            def put(self, topic, msg):
                pass

        class Out(object):
            channel = 'agent_staging_output_queue'
            def put(self, things, qname=None):
                pass

        ex = pmod.Popen.__new__(pmod.Popen)
        self.ex = ex
        ex._uid  = 'agent.executing.0'
        ex._log  = rpshim.NullLog()
        ex._prof = rpshim.NullLog()
        ex._cfg  = ru.Config(from_dict={})
        sess = mock.Mock()
        sess.rcfg = ru.Config(from_dict={'new_session_per_task': False})
        ex._session = sess
        ex._rm   = RM()
        ex._term = Term()
        ex._tasks       = TasksDict()
        ex._check_lock  = SC.CLock(ctl, 'check')
        ex._watch_queue = WatchQueue()
        ex._cancel_lock = SC.CLock(ctl, 'cancel', reentrant=True)
        ex._cancel_list = list()
        ex._to_tasks    = list()
        ex._to_lock     = SC.CLock(ctl, 'to')
        ex._publishers  = {rpc.STATE_PUBSUB: Pub('state'), rpc.AGENT_UNSCHEDULE_PUBSUB: Pub('unsched')}
        ex._outputs     = {rps.AGENT_STAGING_OUTPUT_PENDING: Out()}
        ex._inputs = dict()
        ex._workers = dict()

        def _scripts_exec(launcher, task):
            if rig.spec[task['uid']]['fault'] == 'script':
                raise LaunchError('script creation failed')
            return '/sbox/%s.exec.sh' % task['uid'], None
        def _scripts_launch(launcher, task, exec_path):
            return None, '/sbox/%s.launch.sh' % task['uid']
        ex._create_exec_script   = _scripts_exec
        ex._create_launch_script = _scripts_launch

        real_publish = ex.publish
        def _publish(pubsub, msg, topic=None):
            if pubsub == rpc.AGENT_UNSCHEDULE_PUBSUB and not ru.as_list(msg):
                real_publish(pubsub, msg, topic)       # the watcher's empty round
            elif pubsub == rpc.AGENT_UNSCHEDULE_PUBSUB:
                real_publish(pubsub, msg, topic)
                uids = [t['uid'] for t in ru.as_list(msg)]
                rig.emit(ctl.current(), 'PubUnsched', uids=uids)
            else:
                real_publish(pubsub, msg, topic)
        ex.publish = _publish

        real_adv = ex.advance
        def _adv(things, state=None, publish=True, push=False, **kw):
            tl = ru.as_list(things)
            real_adv(things, state, publish=publish, push=push, **kw)
            for t in tl:
                st = t['state']
                rig.emit(ctl.current(), 'Adv', uid=t['uid'], state=st, push=bool(push),
                         target=str(t.get('target_state') or 'none'),
                         exit=('none' if t.get('exit_code') is None else str(t.get('exit_code'))))
                if (st == rps.AGENT_STAGING_OUTPUT_PENDING and push) or st == rps.FAILED:
                    rig.done_handon.add(t['uid'])
        ex.advance = _adv

        real_ht = ex.handle_timeout
        def _ht(task):
            real_ht(task)
            if rig.spec[task['uid']].get('timeout'):
                rig.to_registered.add(task['uid'])
                rig.emit(ctl.current(), 'RegTimeout', uid=task['uid'])
        ex.handle_timeout = _ht

        real_cancel = ex.cancel_task
        def _cancel(task):
            if ctl.current() == 'timeout':
                rig.to_fired.add(task['uid'])
                rig.emit('timeout', 'TimeoutFire', uid=task['uid'])
            return real_cancel(task)
        ex.cancel_task = _cancel

        real_isc = ex.is_canceled
        def _isc(task):
            r = real_isc(task)
            rig.emit(ctl.current(), 'LateCheck', uid=task['uid'], res=bool(r))
            return r
        ex.is_canceled = _isc

        self.TDict, self.FakeProc = TDict, FakeProc
        self.tasks = {}
        for t in self.scn.tasks:
            d = {'uid': t['uid'], 'executable': '/bin/true'}
            if t.get('timeout'):
                d['timeout'] = float(t['timeout'])
            td = rp.TaskDescription(d)
            td.verify()
            task = TDict({'uid': t['uid'], 'type': 'task', 'state': rps.AGENT_EXECUTING_PENDING,
                          'origin': 'client', 'description': td.as_dict(),
                          'task_sandbox_path': '/sbox/' + t['uid'],
                          'slots': [{'node_index': 0, 'node_name': 'n0', 'cores': [0],
                                     'gpus': [], 'lfs': 0, 'mem': 0}]})
            self.tasks[t['uid']] = task

    # ----------------------------------------------------------------------
    def all_settled(self):
        return all(u in self.done_handon for u in self.accepted) and \
               len(self.accepted) == len(self.scn.tasks) and \
               'control' in self.finished_threads and 'intake' in self.finished_threads

    # ----------------------------------------------------------------------
    def run(self):
        rig, ex, ctl = self, self.ex, self.ctl

        def fake_popen(*a, **kw):
            cwd = kw.get('cwd', '')
            uid = cwd.rsplit('/', 1)[-1]
            if rig.spec[uid]['fault'] == 'spawn':
                raise OSError('cannot spawn')
            p = rig.FakeProc(uid)
            rig.procs[uid] = p
            rig.spawn_gates[uid].owner = None      # process can exit from now on
            return p

        class PTime(object):
            '''time module seen by popen.py (watcher sleep)'''
            @staticmethod
            def sleep(d):
                rig.idle_point('sleep')
            @staticmethod
            def time():
                return rig.now

        class BTime(object):
            '''time module seen by executing/base.py (timeouts, virtual clock)'''
            @staticmethod
            def sleep(d):
                rig.idle_point('sleep')
                rig.now += d
            @staticmethod
            def time():
                if ctl.current() == 'timeout':
                    rig.idle_point('clock')
                    rig.now += 1000.0              # whenever it looks, the limit has passed
                return rig.now

        self.spawn_gates = {t['uid']: Gate(closed=True) for t in self.scn.tasks}

        def intake():
            for bulk in rig.scn.bulks:
                rig.point('intake_get')
                tasks = [rig.tasks[u] for u in bulk]
                rig.accepted.extend(bulk)
                for u in bulk:
                    rig.emit('intake', 'Accept', uid=u)
                real_advance_tasks(tasks)
            rig.finished_threads.add('intake')

        # AnnStart: the first advance in work() is advance_tasks(AGENT_EXECUTING)
        def real_advance_tasks(tasks):
            ex.work(tasks)

        def watcher():
            ex._watch()

        def control():
            for uids in rig.scn.cancels:
                rig.point('ctrl_recv')
                rig.emit('control', 'CancelMsg', uids=list(uids))
                ex._control_cb(rpc.CONTROL_PUBSUB, {'cmd': 'cancel_tasks', 'arg': {'uids': list(uids)}})
            rig.finished_threads.add('control')

        def timeout():
            ex._to_watcher()

        def mk_proc(uid):
            def body():
                rig.point('proc_exit', wants=rig.spawn_gates[uid])
                p = rig.procs[uid]
                p.code = -15 if p.killed else rig.spec[uid]['exit']
                p.gate.owner = None
                rig.emit('proc:' + uid, 'ProcExit', uid=uid, code=str(p.code))
            return body

        ctl.spawn('intake', intake)
        ctl.spawn('watcher', watcher)
        if self.scn.cancels:
            ctl.spawn('control', control)
        else:
            self.finished_threads.add('control')
        if any(t.get('timeout') for t in self.scn.tasks):
            ctl.spawn('timeout', timeout)
        for t in self.scn.tasks:
            if t['fault'] == 'none':
                ctl.spawn('proc:' + t['uid'], mk_proc(t['uid']))

        self.idle_gates = {}
        fake_open = mock.Mock()
        with mock.patch.object(pmod, 'time', PTime), \
             mock.patch.object(bmod, 'time', BTime), \
             mock.patch.object(pmod.sp, 'Popen', fake_popen), \
             mock.patch.object(pmod.ru, 'ru_open', lambda *a, **k: fake_open), \
             mock.patch.object(pmod, '_pids', []):
            err = None
            try:
                ctl.run()
            except SC.Deadlock as e:
                err = 'deadlock: %s' % e
            except Exception as e:              # an exception escaped a logical thread
                err = 'exception: %r' % e
        self.emit('rig', 'End', settled=bool(self.all_settled()), error=err or 'none',
                  accepted=list(self.accepted))
        return self.trace()

    # a polling thread that found nothing to do continues only when there is
    # something for it to observe (no stuttering schedules)
    def watcher_has_work(self):
        if self.ex._watch_queue.items or self.all_settled():
            return True
        for u in self.watched - self.w_removed:
            p = self.procs.get(u)
            if (p is not None and p.code is not None) or not dict.__contains__(self.tasks[u], 'proc'):
                return True
        return False

    def timeout_has_work(self):
        return bool(self.ex._to_tasks) or bool(self.to_pending()) or self.all_settled()

    def to_pending(self):
        # tasks with a registered timeout that did not fire yet and are not handed on
        return [u for u in self.to_registered if u not in self.done_handon and u not in self.to_fired]

    def idle_point(self, name):
        me  = self.ctl.current()
        rig = self

        class Lazy(object):
            @property
            def owner(s):
                ok = rig.watcher_has_work() if me == 'watcher' else rig.timeout_has_work()
                return None if ok else 'idle'
        self.ctl.point(name, wants=Lazy())

    def trace(self):
        return {'uids': [t['uid'] for t in self.scn.tasks],
                'spec': {t['uid']: {'exit': str(t['exit']), 'fault': t['fault'],
                                    'timeout': int(t.get('timeout') or 0)} for t in self.scn.tasks},
                'named': sorted(set(u for c in self.scn.cancels for u in c)),
                'events': self.events,
                'schedule': [c for _, c in self.ctl.choices]}
