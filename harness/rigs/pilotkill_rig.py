'''
PilotKill rig (C14, launcher side): kill requests for pilots, end to end through
the REAL code

    PilotManager.kill_pilots / cancel_pilots / close   (pilot_manager.py)
      -> control message (recorded, delivered later, in order)
      -> PMGRLaunchingComponent.control_cb -> _kill_pilots   (pmgr/launching/base.py)
      -> PilotLauncherSAGA.kill_pilots / PilotLauncherPSIJ.kill_pilots
      -> job.Container.cancel / job.cancel of the batch system stand-in (recorded)
      -> _state_cb -> real ClientComponent.advance -> state message
      -> PilotManager._state_sub_cb -> _update_pilot -> Pilot._update -> callbacks

One pilot manager with 1..3 real Pilot objects and one launching component with
the real PSI/J and SAGA launchers.  `psij` and `radical.saga` are the recording
stand-ins of sizing_rig (`fake_psij`, `fake_saga`, reused by import; radical.saga
is not installed): the modules are bound into psi_j.py / saga.py while a scenario
runs.  Pilot manager, pilots and component are built with __new__ plus the
attributes the methods read; the launchers by their real constructors.  The state
and control pubsub are a synchronous stand-in: state messages are delivered at
once (to the manager, as the bridge does - also its own), control messages are
queued and delivered by an explicit step, so that pilots can be launched, become
active and end between a request and its delivery.  wait_pilots (polling on wall
clock time) is a recorder.

work() and _start_pilot_bulk() are real.  Of the latter's front part (SizingBulk's
business) _prepare_pilot is a stand-in which keeps the job description the rig
supplies, tar (ru.sh_callout as seen by base.py) is a no-op, the temporary
directory lives in a scratch directory, and _stage_in is a SCHEDULE POINT: the
launcher selection, the component lock around launch_pilots and the registration
in _pilots are the code's.  The other schedule point is the batch system end of
the stand-ins (JobExecutor.submit / job.Container.run call the rig's hooks): there
a second logical thread can act while the launcher is inside the submission -
the control subscriber delivering a queued message, the batch layer reporting job
states (status callbacks, also for the job which is being submitted).  The
component lock is instrumented: a delivery attempted while work() holds it waits
(as the control thread would) and runs when the lock is released.

script steps (python lists)                                     event logged
  ['work', [pids], opts]      comp.work(pilot documents)             WorkBegin .. Work
       opts (optional): {'staging': steps, 'tarball': steps, 'submit': steps} - script steps
       applied by the other threads at the first _stage_in (staging directives), the second
       (tarball) and inside the submission; a 'jobends' step for a pilot of the bulk runs
       once that pilot's job is at the batch system
  ['active', pid]             state message of the agent             Active
  ['jobends', pid, state]     batch layer reports DONE/FAILED/CANCELED
                              (or QUEUED / RUNNING: not final)       JobEnds
  ['kill', uids, form]        pmgr.kill_pilots(...)                  Request
  ['cancel', uids, form]      pmgr.cancel_pilots(...) / Pilot.cancel()    Request
  ['raw', uids, own, form]    a kill_pilots control message as such  Request
  ['close']                   pmgr.close()                           Request
  ['pclose', terminate]       pmgr.close(terminate=...)              Request
  ['sclose', terminate, via]  Session.close on a __new__-built session which holds the pilot
                              manager: via 'kwarg' close(terminate=...), 'option' close_options
                              of the session then close(), 'exit' the context manager exit
                              (terminate None: the default)          Request
  ['deliver']                 oldest control message -> comp.control_cb   Deliver
  ['flush']                   deliver what is queued; the batch system
                              confirms the cancels it was asked for  Deliver* JobEnds*
  ['end']                                                            End
  form: 'list' | 'str' (single uid as string) | 'none' (no argument) | 'pilot' (Pilot.cancel)

every event carries  msgs (control messages published), pubs (state publications
of the launcher [pid, state]), cbs (application callbacks [pid, state]), jobc
(pids whose batch job got a cancel), post (per pilot: launcher view lv, client
view cs, remembered for cancellation pre), prex (other uids remembered), raised,
during ('none' | 'staging' | 'tarball' | 'submit' | 'unlock': where work() was
when the event happened) and lvpre / cspre (launcher / client views before the event).
'''

import copy
import threading as mt

from collections import defaultdict
from unittest import mock

from .. import rpshim

rp  = rpshim.load()
ru  = __import__('radical.utils', fromlist=['x'])
rpc = rp.constants
rps = rp.states

from . import sizing_rig as SZ            # fake_psij / fake_saga / Hooks, launcher modules

from radical.pilot.pilot         import Pilot
from radical.pilot.pilot_manager import PilotManager
from radical.pilot               import session as m_session

lbase, psi_mod, saga_mod = SZ.lbase, SZ.psi_mod, SZ.saga_mod

PMGR    = 'pmgr.0000'
FOREIGN = 'pmgr.0007'
GHOST   = 'pilot.9999'
PIDS    = ['pilot.0000', 'pilot.0001', 'pilot.0002']
KINDS   = ('saga', 'psij')
# job manager end points: PSI/J has an executor for slurm, none for torque -> SAGA
RCFG    = {'saga': {'job_manager_endpoint': 'torque://localhost/'},
           'psij': {'job_manager_endpoint': 'slurm://localhost/'}}
LNAME   = {'saga': 'SAGA', 'psij': 'PSI_J'}


def cview(state):
    if state in rps.FINAL:
        return str(state)
    if state in (rps.NEW, rps.PMGR_LAUNCHING_PENDING):
        return 'PEND'
    if state in (rps.PMGR_LAUNCHING, rps.PMGR_ACTIVE_PENDING):
        return 'LAUNCH'
    if state == rps.PMGR_ACTIVE:
        return 'ACTIVE'
    return 'OTHER:%s' % state


class _Rep(rpshim.NullLog):
    _enabled = False


class TrackedLock(object):
    '''re-entrant lock for logical threads: the rig says who runs (`who()`), the lock
       knows its holder; `on_free` runs when it is given up'''

    def __init__(self, who, on_free):
        self.who, self.on_free, self.holder, self.depth = who, on_free, None, 0

    def acquire(self, *a, **k):
        assert self.holder in (None, self.who()), 'lock taken while %s holds it' % self.holder
        self.holder = self.who()
        self.depth += 1
        return True

    def release(self):
        self.depth -= 1
        if self.depth == 0:
            self.holder = None
            self.on_free()

    __enter__ = acquire

    def __exit__(self, *a):
        self.release()


class _Proxy(object):
    '''a module as base.py sees it, some names replaced'''

    def __init__(self, real, **over):
        self.__dict__.update(_real=real, _over=over)

    def __getattr__(self, name):
        over = self.__dict__['_over']
        return over[name] if name in over else getattr(self.__dict__['_real'], name)


class _Session(object):
    uid = 'rp.session.verif.0000'

    def get_resource_config(self, resource, schema=None):
        return dict(RCFG[str(resource).split('.')[-1]], filesystem_endpoint='file://localhost/')

    def _get_session_sandbox(self, pilot):
        return ru.Url('file://localhost/scratch/radical.pilot.sandbox/%s' % self.uid)


class _Closer(object):
    def close(self, *a, **k):
        pass
    stop = close


# ------------------------------------------------------------------------------
class PilotKillRig(object):

    def __init__(self, kinds, script):
        '''kinds: list of 'saga' | 'psij', one per pilot (1..3 pilots)'''
        self.kinds  = [str(k) for k in kinds]
        self.pids   = PIDS[:len(self.kinds)]
        self.script = [list(s) for s in script]
        self.events = []
        self.ctlq   = []
        self.stack  = []             # recorders of the events in progress (innermost last)
        self.jobcs  = set()          # pids whose job was asked to cancel and did not end yet
        self.waits  = []
        self.jobs   = dict()         # pid -> job object at the batch system stand-in
        self.jex    = dict()         # pid -> PSI/J executor of the job
        self.dead   = set()          # pids whose job reported a final state
        self.thread = 'main'         # the logical thread which runs
        self.phase  = 'none'         # where work() is
        self.plan   = dict()         # steps of the other threads per schedule point of work()
        self.waiting = []            # deliveries which wait for the component lock
        self.begun  = True
        self.wpids  = []
        self.bulk   = []             # the bulk _start_pilot_bulk is busy with

    @property
    def cur(self):
        return self.stack[-1] if self.stack else None

    # ---- the wire ----------------------------------------------------------------
    def _pmgr_publish(self, pubsub, msg, topic=None):
        msg = copy.deepcopy(msg)
        if pubsub == rpc.CONTROL_PUBSUB:
            self.ctlq.append(msg)
            self.cur['msgs'].append(self._msg_proj(msg))
        elif pubsub == rpc.STATE_PUBSUB:
            # the manager subscribes to the channel it publishes on
            self.pm._state_sub_cb(pubsub, msg)

    def _comp_publish(self, pubsub, msg, topic=None):
        msg = copy.deepcopy(msg)
        if pubsub == rpc.STATE_PUBSUB:
            for thing in ru.as_list(msg.get('arg')):
                if thing.get('type') == 'pilot':
                    self.cur['pubs'].append([str(thing['uid']), str(thing['state'])])
            self.pm._state_sub_cb(pubsub, msg)
        elif pubsub == rpc.CONTROL_PUBSUB:
            self.ctlq.append(msg)
            self.cur['msgs'].append(self._msg_proj(msg))

    @staticmethod
    def _msg_proj(msg):
        arg  = msg.get('arg') or {}
        uids = arg.get('uids') if isinstance(arg, dict) else None
        return {'cmd': str(msg.get('cmd')), 'pmgr': str(arg.get('pmgr') if isinstance(arg, dict) else 'none'),
                'own': bool(isinstance(arg, dict) and arg.get('pmgr') == PMGR),
                'uids': [str(u) for u in (uids if isinstance(uids, list) else [] if uids is None else [uids])],
                'aslist': isinstance(uids, list), 'fwd': bool(msg.get('fwd'))}

    # ---- construction ------------------------------------------------------------
    def _build(self):
        log = rpshim.NullLog()
        log.level, log.debug_level = 'OFF', 0

        pm = PilotManager.__new__(PilotManager)
        pm._uid         = PMGR
        pm._log         = log
        pm._prof        = SZ._Prof()
        pm._rep         = _Rep()
        pm._pilots      = dict()
        pm._pilots_lock = mt.RLock()
        pm._pcb_lock    = mt.RLock()
        pm._terminate   = mt.Event()
        pm._term        = mt.Event()
        pm._closed      = False
        pm._callbacks   = {m: dict() for m in rpc.PMGR_METRICS}
        pm._outputs     = dict()
        pm._inputs      = dict()
        pm._subscribers = dict()
        pm._cmgr        = _Closer()
        pm.dump         = lambda *a, **k: None
        pm.publish      = self._pmgr_publish
        pm.wait_pilots  = lambda uids=None, state=None, timeout=None: self.waits.append(
                                   [str(u) for u in ru.as_list(uids)])
        self.pm = pm
        for pid in self.pids:
            pm._pilots[pid] = self._make_pilot(pid)
        pm.register_callback(self._app_cb)

        c = lbase.PMGRLaunchingComponent.__new__(lbase.PMGRLaunchingComponent)
        c._uid       = '%s.launching.0000' % PMGR
        c._pmgr      = PMGR
        c._owner     = PMGR
        c._log       = log
        c._prof      = SZ._Prof()
        c._pilots    = dict()
        c._lock      = TrackedLock(lambda: self.thread, self._lock_free)
        c._session   = _Session()
        c._sandboxes = dict()
        c._cancelled = list()
        c._outputs   = dict()
        c.publish    = self._comp_publish
        # the launchers, in the order of the real constructor: PSI/J is asked first
        c._launchers = dict()
        c._launchers['PSI_J'] = psi_mod.PilotLauncherPSIJ('PSI_J', log, c._prof, c._state_cb)
        c._launchers['SAGA']  = saga_mod.PilotLauncherSAGA('SAGA', log, c._prof, c._state_cb)
        c._prepare_pilot      = self._prepare_pilot
        c._stage_in           = self._stage_point
        real_bulk             = c._start_pilot_bulk

        def start_pilot_bulk(resource, schema, pilots):
            self.bulk = [p['uid'] for p in pilots]
            try:
                return real_bulk(resource, schema, pilots)
            finally:
                self.bulk = []
        c._start_pilot_bulk   = start_pilot_bulk
        self.comp = c

    def _session(self, close_options):
        '''a primary session around the pilot manager: the real Session.close() runs, what it
           sends on the control channel is recorded like the manager's messages'''
        rig, log = self, rpshim.NullLog()
        S = m_session.Session
        s = S.__new__(S)

        class CtrlPub(object):
            def put(self, channel, msg):
                rig._pmgr_publish(channel, msg)

        s._uid, s._role, s._closed = 'rp.session.verif.0000', S._PRIMARY, False
        s._log, s._prof, s._rep    = log, SZ._Prof(), _Rep()
        s._close_options           = m_session._CloseOptions(close_options or {})
        s._close_options.verify()
        s._ctrl_pub, s._ctrl_sub   = CtrlPub(), _Closer()
        s._tmgrs, s._pmgrs         = dict(), {PMGR: self.pm}
        s._cmgr = s._proxy_client = s._proxy = None
        s._reg, s._reg_service     = log, _Closer()
        s._t_start, s._to_stop     = 0.0, list()
        return s

    def _make_pilot(self, pid):
        p = Pilot.__new__(Pilot)
        p._descr         = {'uid': pid, 'resource': 'verif.x', 'runtime': 10}
        p._pmgr          = self.pm
        p._session       = None
        p._prof          = self.pm._prof
        p._uid           = pid
        p._state         = rps.PMGR_LAUNCHING_PENDING        # submitted, on its way to the launcher
        p._log           = self.pm._log
        p._sub           = _Closer()
        p._pilot_dict    = dict()
        p._callbacks     = {m: dict() for m in rpc.PMGR_METRICS}
        p._cb_lock       = ru.RLock()
        p._tmgr          = None
        p._nodelist      = None
        p._exit_on_error = False
        return p

    def _app_cb(self, pilot, state):
        if self.cur is not None:
            self.cur['cbs'].append([str(pilot.uid), str(state)])

    def _doc(self, pid):
        kind = self.kinds[self.pids.index(pid)]
        jd   = lbase.rpu.FastTypedDict()
        jd.name, jd.executable, jd.arguments = 'job.%s' % pid, '/bin/bash', ['-l', 'bootstrap_0.sh', '-p', pid]
        jd.working_directory, jd.project, jd.queue = '/scratch/%s' % pid, 'proj', 'q'
        jd.output, jd.error = 'bootstrap_0.out', 'bootstrap_0.err'
        jd.node_count, jd.total_cpu_count, jd.total_gpu_count = 1, 8, 0
        jd.wall_time_limit, jd.file_transfer, jd.environment = 10, list(), dict()
        jd.system_architecture = dict()
        return {'uid': pid, 'type': 'pilot', 'pmgr': PMGR, 'state': rps.PMGR_LAUNCHING_PENDING,
                'description': {'resource': 'verif.%s' % kind, 'access_schema': None},
                'jd_dict': jd}

    def _prepare_pilot(self, resource, rcfg, pilot, expand, tar_name):
        # the job description is the rig's (see _doc); nothing to stage
        pilot['fts'], pilot['sds'] = list(), list()

    # ---- schedule points of work() ---------------------------------------------------
    def _stage_point(self, pilot, sds):
        if self.thread != 'work':
            return
        self.nstage += 1
        self._work_begun()
        self._at('staging' if self.nstage == 1 else 'tarball' if self.nstage == 2 else 'later')

    def _work_begun(self):
        '''work() sorted out the pilots a kill had named and is about to stage: what it
           published until here is the WorkBegin event'''
        if self.begun:
            return
        self.begun = True
        cur = self.stack[-1]
        rec = dict(ev='WorkBegin', raised='none', during='none', pids=list(self.wpids),
                   lvpre=self.wlvpre, msgs=cur['msgs'], pubs=cur['pubs'], cbs=cur['cbs'],
                   jobc=sorted(set(cur['jobc'])))
        rec.update(self._post())
        self.events.append(rec)
        cur.update(msgs=[], pubs=[], cbs=[], jobc=[])

    def _at(self, point):
        '''the other threads act while work() is at `point`'''
        keep, self.phase, self.thread = (self.phase, self.thread), point, 'other'
        try:
            todo = self.plan.get(point) or []
            rest = []
            for step in todo:
                if step[0] == 'jobends' and step[1] in self.wpids and step[1] not in self.jobs:
                    rest.append(step)            # that job is not at the batch system yet
                else:
                    self._apply(step)
            self.plan[point] = rest
        finally:
            self.phase, self.thread = keep

    def _submit_point(self, found):
        '''the batch system end: `found` = [(pid, job, executor or None)] just handed over'''
        for pid, job, jex in found:
            self.jobs[pid] = job
            if jex is not None:
                self.jex[pid] = jex
            self._watch_job(pid, job)
        if self.thread == 'work':
            self._work_begun()
            self._at('submit')

    def _psij_submit(self, executor, job):
        args = [str(a) for a in (job.spec.arguments or [])]
        pid  = args[args.index('-p') + 1] if '-p' in args else 'unknown'
        self._submit_point([(pid, job, executor)])

    def _saga_run(self, container):
        self._submit_point([(str(t.name)[4:], t, None) for t in container.tasks])

    def _watch_job(self, pid, job):
        real = job.cancel

        def cancel(*a, **k):
            if self.cur is not None:
                self.cur['jobc'].append(pid)
            self.jobcs.add(pid)
            return real(*a, **k)
        job.cancel = cancel

    def _lock_free(self):
        '''the component lock was given up: a control thread which waited for it goes on'''
        if self.thread == 'work' and self.waiting:
            todo, self.waiting = self.waiting, []
            keep, self.phase, self.thread = (self.phase, self.thread), 'unlock', 'other'
            try:
                for step in todo:
                    self._apply(step)
            finally:
                self.phase, self.thread = keep

    # ---- projections ---------------------------------------------------------------
    def _lview(self, pid):
        p = self.comp._pilots.get(pid)
        if p is None:
            return 'none'
        return str(p['state']) if p['state'] in rps.FINAL else 'live'

    def _post(self):
        pre = [str(x) for x in self.comp._cancelled]
        return {'post': [{'pid': pid, 'lv': self._lview(pid), 'cs': cview(self.pm._pilots[pid].state),
                          'pre': pid in pre} for pid in self.pids],
                'prex': sorted(set(x for x in pre if x not in self.pids)),
                'nctl': len(self.ctlq)}

    def _lviews(self):
        return [self._lview(pid) for pid in self.pids]

    def _event(self, ev, fn, **args):
        '''events nest (a delivery inside work()): what is published goes to the innermost'''
        lvpre = self._lviews()
        cspre = [cview(self.pm._pilots[pid].state) for pid in self.pids]
        self.stack.append({'msgs': [], 'pubs': [], 'cbs': [], 'jobc': []})
        raised = 'none'
        try:
            fn()
        except Exception as e:
            raised = '%s: %s' % (type(e).__name__, str(e)[:80])
        cur = self.stack.pop()
        rec = dict(ev=ev, raised=raised, during=self.phase, lvpre=lvpre, cspre=cspre, **args)
        if ev == 'Deliver':
            # the pilots work() is busy with / whose jobs are being submitted just now
            rec.update(inwork=list(self.wpids) if self.thread != 'main' else [],
                       insubmit=list(self.bulk) if self.phase == 'submit' else [])
        cur['jobc'] = sorted(set(cur['jobc']))
        rec.update(cur)
        rec.update(self._post())
        self.events.append(rec)
        return rec

    # ---- steps ---------------------------------------------------------------------
    SAGA_STATES = {'DONE': 'DONE', 'FAILED': 'FAILED', 'CANCELED': 'CANCELED', 'QUEUED': 'PENDING',
                   'RUNNING': 'RUNNING'}
    PSIJ_STATES = {'DONE': 'COMPLETED', 'FAILED': 'FAILED', 'CANCELED': 'CANCELED', 'QUEUED': 'QUEUED',
                   'RUNNING': 'ACTIVE'}

    def _job_report(self, pid, state):
        '''the batch layer reports a state of the pilot's job to the launcher: through the
           callbacks the launcher registered (per job: SAGA, per executor: PSI/J)'''
        job = self.jobs[pid]
        if pid in self.jex:
            job.status = self.psij.JobStatus(getattr(self.psij.JobState, self.PSIJ_STATES[state]))
            self.jex[pid]._cb(job, job.status)
        else:
            job.state = getattr(self.saga, self.SAGA_STATES[state])
            for metric, cb in list(job.callbacks):
                cb(job, metric, job.state)
        if state in ('DONE', 'FAILED', 'CANCELED'):
            self.jobcs.discard(pid)

    def _arg(self, uids, form):
        if form == 'none':
            return None
        if form == 'str':
            assert len(uids) == 1
            return uids[0]
        return list(uids)

    def _work(self, pids, plan):
        c = self.comp
        self.plan, self.begun, self.nstage = {k: [list(x) for x in v] for k, v in plan.items()}, False, 0
        self.wpids, self.wlvpre = list(pids), self._lviews()
        keep, self.thread = self.thread, 'work'
        try:
            c.work([self._doc(p) for p in pids])
        finally:
            self.thread = keep
            self._work_begun()               # nothing was staged: all of it is the begin

    def _apply(self, step):
        op, pm, c = step[0], self.pm, self.comp
        if op == 'work':
            pids, plan = list(step[1]), dict(step[2]) if len(step) > 2 else {}
            self._event('Work', lambda: self._work(pids, plan), pids=pids)
            # what the other threads could not do inside (no such point reached): afterwards
            for point in ('staging', 'tarball', 'submit'):
                for st in self.plan.get(point) or []:
                    self._apply(st)
            self.plan = dict()
        elif op in ('active', 'jobends') and (step[1] not in self.jobs or step[1] in self.dead):
            pass                              # no such job (any more): nothing can report
        elif op == 'active':
            pid = step[1]
            if self._lview(pid) == 'live':
                msg = {'cmd': 'update', 'arg': {'type': 'pilot', 'uid': pid, 'state': rps.PMGR_ACTIVE}}
                self._event('Active', lambda: pm._state_sub_cb(rpc.STATE_PUBSUB, msg), pid=pid)
        elif op == 'jobends':
            pid, state = step[1], step[2]
            final = state in ('DONE', 'FAILED', 'CANCELED')
            if final:
                self.dead.add(pid)
            self._event('JobEnds', lambda: self._job_report(pid, state), pid=pid, state=state,
                        final=final, asked=pid in self.jobcs, listening=not pm._terminate.is_set())
        elif op in ('kill', 'cancel'):
            uids, form = list(step[1]), step[2] if len(step) > 2 else 'list'
            if form == 'pilot':
                fn = lambda: pm._pilots[uids[0]].cancel()
            else:
                meth = pm.kill_pilots if op == 'kill' else pm.cancel_pilots
                arg  = self._arg(uids, form)
                fn   = (lambda: meth()) if form == 'none' else (lambda: meth(arg))
            self._event('Request', fn, api=op, uids=uids, form=form, own=True)
        elif op == 'raw':
            uids, own = list(step[1]), bool(step[2])
            form = step[3] if len(step) > 3 else 'list'
            msg  = {'cmd': 'kill_pilots', 'arg': {'pmgr': PMGR if own else FOREIGN,
                                                   'uids': self._arg(uids, form)}}
            self._event('Request', lambda: self._pmgr_publish(rpc.CONTROL_PUBSUB, msg), api='raw',
                        uids=uids, form=form, own=own)
        elif op == 'close':
            self._event('Request', lambda: pm.close(), api='close', uids=[], form='none', own=True)
        elif op == 'pclose':
            term = bool(step[1])
            self._event('Request', lambda: pm.close(terminate=term), api='pclose', uids=[], form='kwarg',
                        own=True, terminate=term)
        elif op == 'sclose':
            term, via = step[1], step[2] if len(step) > 2 else 'kwarg'
            sess = self._session(None if via != 'option' or term is None else {'terminate': bool(term)})
            if via == 'kwarg' and term is not None:
                fn = lambda: sess.close(terminate=bool(term))
            elif via == 'exit':
                fn = lambda: sess.__exit__(None, None, None)
            else:
                fn = lambda: sess.close()
            self._event('Request', fn, api='sclose', uids=[], form=via, own=True,
                        terminate=True if term is None or via == 'exit' else bool(term))
        elif op == 'deliver':
            if c._lock.holder == 'work' and self.thread != 'work':
                # work() holds the component lock: the control thread waits for it
                self.waiting.append(['deliver'])
            elif self.ctlq:
                msg = self.ctlq.pop(0)
                self._event('Deliver', lambda: c.control_cb(rpc.CONTROL_PUBSUB, copy.deepcopy(msg)),
                            msg=self._msg_proj(msg))
        elif op == 'flush':
            while self.ctlq:
                self._apply(['deliver'])
            for pid in self.pids:
                if pid in self.jobcs and pid in self.jobs and pid not in self.dead:
                    self._apply(['jobends', pid, 'CANCELED'])
        elif op == 'end':
            self._event('End', lambda: None)
        else:
            raise ValueError('unknown step %r' % (step,))

    def run(self):
        hooks     = SZ.Hooks()
        hooks.psij_submit, hooks.saga_run = self._psij_submit, self._saga_run
        self.psij = SZ.fake_psij(hooks)
        self.saga = SZ.fake_saga(hooks)
        # the temporary session sandbox of _start_pilot_bulk holds nothing here (no files to stage,
        # tar is a no-op): it is not created on disk at all
        count = [0]

        def mkdtemp(prefix='tmp', **k):
            count[0] += 1
            return '/tmp/b-pilotkill_virtual/%s%04d' % (prefix, count[0])
        patches = [mock.patch.object(lbase, 'ru', _Proxy(lbase.ru, sh_callout=lambda *a, **k: ('', '', 0))),
                   mock.patch.object(lbase, 'tempfile', _Proxy(lbase.tempfile, mkdtemp=mkdtemp)),
                   mock.patch.object(lbase, 'os', _Proxy(lbase.os, makedirs=lambda *a, **k: None)),
                   mock.patch.object(lbase, 'shutil', _Proxy(lbase.shutil, rmtree=lambda *a, **k: None)),
                   mock.patch.object(psi_mod,  'psij',    self.psij),
                   mock.patch.object(psi_mod,  'psij_ex', None),
                   mock.patch.object(saga_mod, 'rs',      self.saga),
                   mock.patch.object(saga_mod, 'rs_ex',   None)]
        for pt in patches:
            pt.start()
        try:
            self._build()
            for step in self.script:
                self._apply(step)
        finally:
            for pt in reversed(patches):
                pt.stop()
        return {'pilots': [{'pid': p, 'kind': k} for p, k in zip(self.pids, self.kinds)],
                'ghost': GHOST, 'events': self.events}


# ------------------------------------------------------------------------------
def random_script(rng):
    '''a seeded scenario: 1..3 pilots, environment steps and 1..3 requests in any order'''
    n     = rng.randint(1, 3)
    kinds = [rng.choice(KINDS) for _ in range(n)]
    pids  = PIDS[:n]
    lv    = {p: 'none' for p in pids}
    script, closed, nctl = [], False, 0
    for _ in range(rng.randint(2, 10)):
        x = rng.random()
        new  = [p for p in pids if lv[p] == 'none']
        live = [p for p in pids if lv[p] == 'live']
        if x < 0.25 and new:
            s = sorted(rng.sample(new, rng.randint(1, len(new))))
            step, opts = ['work', s], {}
            if rng.random() < 0.5:
                # the other threads act while work() is busy with this bulk
                if nctl and rng.random() < 0.7:
                    opts.setdefault(rng.choice(['staging', 'tarball', 'submit', 'submit']), []).append(['deliver'])
                    nctl -= 1
                for p in s:
                    if rng.random() < 0.3:
                        k  = kinds[pids.index(p)]
                        st = rng.choice(['DONE', 'CANCELED'] + (['FAILED'] if k == 'psij' else []))
                        opts.setdefault('submit', []).extend([['jobends', p, 'QUEUED'], ['jobends', p, st]])
                        lv[p] = 'final'
                if opts:
                    step.append(opts)
            script.append(step)
            for p in s:
                if lv[p] == 'none':
                    lv[p] = 'live'                    # or dropped: the rig does not care
        elif x < 0.35 and live:
            script.append(['active', rng.choice(live)])
        elif x < 0.50 and live:
            p = rng.choice(live)
            script.append(['jobends', p, rng.choice(['DONE', 'DONE', 'FAILED', 'CANCELED'])])
            lv[p] = 'final'
        elif x < 0.80 and not closed:
            y    = rng.random()
            pool = pids + ([GHOST] if rng.random() < 0.2 else [])
            uids = sorted(rng.sample(pool, rng.randint(0 if y >= 0.4 else 1, len(pool))))
            if y < 0.40:
                api  = rng.choice(['kill', 'kill', 'cancel'])
                form = 'none' if not uids else rng.choice(['list', 'list', 'str' if len(uids) == 1 else 'list'])
                if api == 'cancel' and len(uids) == 1 and uids[0] != GHOST and rng.random() < 0.3:
                    form = 'pilot'
                script.append([api, uids, form])
            elif y < 0.75:
                script.append(['raw', uids, rng.random() < 0.7,
                               'str' if len(uids) == 1 and rng.random() < 0.3 else 'list'])
            elif y < 0.85:
                script.append(rng.choice([['close'], ['pclose', True], ['pclose', False],
                                          ['sclose', True, 'kwarg'], ['sclose', False, 'kwarg'],
                                          ['sclose', False, 'option'], ['sclose', None, 'exit']]))
                closed = True
            else:
                script.append(['kill', [], rng.choice(['none', 'list'])])
            nctl += 1
        elif nctl:
            script.append(['deliver'])
            nctl -= 1
    script += [['flush'], ['end']]
    return kinds, script
