'''
PilotKill rig (C14, launcher side): kill requests for pilots, end to end through
the REAL code

    PilotManager.kill_pilots / cancel_pilots / close   (pilot_manager.py)
      -> control message (recorded, delivered later, in order)
      -> PMGRLaunchingComponent.control_cb -> _kill_pilots   (pmgr/launching/base.py)
      -> PilotLauncherSAGA.kill_pilots / PilotLauncherPSIJ.kill_pilots
      -> job.Container.cancel / job.cancel of the batch system stand-in (recorded)
      -> _state_cb -> real ClientComponent.advance -> state message
      -> PilotManager._state_sub_cb -> _update_pilot -> Pilot._update -> callbacks

One pilot manager with 1..3 real Pilot objects and one launching component with
the real PSI/J and SAGA launchers.  `psij` and `radical.saga` are the recording
stand-ins of sizing_rig (`fake_psij`, `fake_saga`, reused by import; radical.saga
is not installed): the modules are bound into psi_j.py / saga.py while a scenario
runs.  Pilot manager, pilots and component are built with __new__ plus the
attributes the methods read; the launchers by their real constructors.  The state
and control pubsub are a synchronous stand-in: state messages are delivered at
once (to the manager, as the bridge does - also its own), control messages are
queued and delivered by an explicit step, so that pilots can be launched, become
active and end between a request and its delivery.  wait_pilots (polling on wall
clock time) is a recorder.

What is NOT the code's: the front part of _start_pilot_bulk (sandboxes, agent
config, tarball, staging - SizingBulk's business).  work() is real; it calls a
stand-in which does what the tail of the real _start_pilot_bulk does (pick the
first launcher which can_launch, launch_pilots, register in _pilots).

script steps (python lists)                                     event logged
  ['work', [pids]]            comp.work(pilot documents)             Work
  ['active', pid]             state message of the agent             Active
  ['jobends', pid, state]     batch system reports DONE/FAILED/CANCELED   JobEnds
  ['kill', uids, form]        pmgr.kill_pilots(...)                  Request
  ['cancel', uids, form]      pmgr.cancel_pilots(...) / Pilot.cancel()    Request
  ['raw', uids, own, form]    a kill_pilots control message as such  Request
  ['close']                   pmgr.close()                           Request
  ['deliver']                 oldest control message -> comp.control_cb   Deliver
  ['flush']                   deliver what is queued; the batch system
                              confirms the cancels it was asked for  Deliver* JobEnds*
  ['end']                                                            End
  form: 'list' | 'str' (single uid as string) | 'none' (no argument) | 'pilot' (Pilot.cancel)

every event carries  msgs (control messages published), pubs (state publications
of the launcher [pid, state]), cbs (application callbacks [pid, state]), jobc
(pids whose batch job got a cancel), post (per pilot: launcher view lv, client
view cs, remembered for cancellation pre), prex (other uids remembered), raised.
'''

import copy
import threading as mt

from collections import defaultdict
from unittest import mock

from .. import rpshim

rp  = rpshim.load()
ru  = __import__('radical.utils', fromlist=['x'])
rpc = rp.constants
rps = rp.states

from . import sizing_rig as SZ            # fake_psij / fake_saga / Hooks, launcher modules

from radical.pilot.pilot         import Pilot
from radical.pilot.pilot_manager import PilotManager

lbase, psi_mod, saga_mod = SZ.lbase, SZ.psi_mod, SZ.saga_mod

PMGR    = 'pmgr.0000'
FOREIGN = 'pmgr.0007'
GHOST   = 'pilot.9999'
PIDS    = ['pilot.0000', 'pilot.0001', 'pilot.0002']
KINDS   = ('saga', 'psij')
# job manager end points: PSI/J has an executor for slurm, none for torque -> SAGA
RCFG    = {'saga': {'job_manager_endpoint': 'torque://localhost/'},
           'psij': {'job_manager_endpoint': 'slurm://localhost/'}}
LNAME   = {'saga': 'SAGA', 'psij': 'PSI_J'}


def cview(state):
    if state in rps.FINAL:
        return str(state)
    if state in (rps.NEW, rps.PMGR_LAUNCHING_PENDING):
        return 'PEND'
    if state in (rps.PMGR_LAUNCHING, rps.PMGR_ACTIVE_PENDING):
        return 'LAUNCH'
    if state == rps.PMGR_ACTIVE:
        return 'ACTIVE'
    return 'OTHER:%s' % state


class _Rep(rpshim.NullLog):
    _enabled = False


class _Closer(object):
    def close(self, *a, **k):
        pass
    stop = close


# ------------------------------------------------------------------------------
class PilotKillRig(object):

    def __init__(self, kinds, script):
        '''kinds: list of 'saga' | 'psij', one per pilot (1..3 pilots)'''
        self.kinds  = [str(k) for k in kinds]
        self.pids   = PIDS[:len(self.kinds)]
        self.script = [list(s) for s in script]
        self.events = []
        self.ctlq   = []
        self.cur    = None           # recorders of the event in progress
        self.jobcs  = set()          # pids whose job was asked to cancel and did not end yet
        self.waits  = []

    # ---- the wire ----------------------------------------------------------------
    def _pmgr_publish(self, pubsub, msg, topic=None):
        msg = copy.deepcopy(msg)
        if pubsub == rpc.CONTROL_PUBSUB:
            self.ctlq.append(msg)
            self.cur['msgs'].append(self._msg_proj(msg))
        elif pubsub == rpc.STATE_PUBSUB:
            # the manager subscribes to the channel it publishes on
            self.pm._state_sub_cb(pubsub, msg)

    def _comp_publish(self, pubsub, msg, topic=None):
        msg = copy.deepcopy(msg)
        if pubsub == rpc.STATE_PUBSUB:
            for thing in ru.as_list(msg.get('arg')):
                if thing.get('type') == 'pilot':
                    self.cur['pubs'].append([str(thing['uid']), str(thing['state'])])
            self.pm._state_sub_cb(pubsub, msg)
        elif pubsub == rpc.CONTROL_PUBSUB:
            self.ctlq.append(msg)
            self.cur['msgs'].append(self._msg_proj(msg))

    @staticmethod
    def _msg_proj(msg):
        arg  = msg.get('arg') or {}
        uids = arg.get('uids') if isinstance(arg, dict) else None
        return {'cmd': str(msg.get('cmd')), 'pmgr': str(arg.get('pmgr') if isinstance(arg, dict) else 'none'),
                'own': bool(isinstance(arg, dict) and arg.get('pmgr') == PMGR),
                'uids': [str(u) for u in (uids if isinstance(uids, list) else [] if uids is None else [uids])],
                'aslist': isinstance(uids, list)}

    # ---- construction ------------------------------------------------------------
    def _build(self):
        log = rpshim.NullLog()
        log.level, log.debug_level = 'OFF', 0

        pm = PilotManager.__new__(PilotManager)
        pm._uid         = PMGR
        pm._log         = log
        pm._prof        = SZ._Prof()
        pm._rep         = _Rep()
        pm._pilots      = dict()
        pm._pilots_lock = mt.RLock()
        pm._pcb_lock    = mt.RLock()
        pm._terminate   = mt.Event()
        pm._term        = mt.Event()
        pm._closed      = False
        pm._callbacks   = {m: dict() for m in rpc.PMGR_METRICS}
        pm._outputs     = dict()
        pm._inputs      = dict()
        pm._subscribers = dict()
        pm._cmgr        = _Closer()
        pm.dump         = lambda *a, **k: None
        pm.publish      = self._pmgr_publish
        pm.wait_pilots  = lambda uids=None, state=None, timeout=None: self.waits.append(
                                   [str(u) for u in ru.as_list(uids)])
        self.pm = pm
        for pid in self.pids:
            pm._pilots[pid] = self._make_pilot(pid)
        pm.register_callback(self._app_cb)

        c = lbase.PMGRLaunchingComponent.__new__(lbase.PMGRLaunchingComponent)
        c._uid       = '%s.launching.0000' % PMGR
        c._pmgr      = PMGR
        c._owner     = PMGR
        c._log       = log
        c._prof      = SZ._Prof()
        c._pilots    = dict()
        c._lock      = mt.RLock()
        c._sandboxes = dict()
        c._cancelled = list()
        c._outputs   = dict()
        c.publish    = self._comp_publish
        # the launchers, in the order of the real constructor: PSI/J is asked first
        c._launchers = dict()
        c._launchers['PSI_J'] = psi_mod.PilotLauncherPSIJ('PSI_J', log, c._prof, c._state_cb)
        c._launchers['SAGA']  = saga_mod.PilotLauncherSAGA('SAGA', log, c._prof, c._state_cb)
        c._start_pilot_bulk   = self._bulk_tail
        self.comp = c

    def _make_pilot(self, pid):
        p = Pilot.__new__(Pilot)
        p._descr         = {'uid': pid, 'resource': 'verif.x', 'runtime': 10}
        p._pmgr          = self.pm
        p._session       = None
        p._prof          = self.pm._prof
        p._uid           = pid
        p._state         = rps.PMGR_LAUNCHING_PENDING        # submitted, on its way to the launcher
        p._log           = self.pm._log
        p._sub           = _Closer()
        p._pilot_dict    = dict()
        p._callbacks     = {m: dict() for m in rpc.PMGR_METRICS}
        p._cb_lock       = ru.RLock()
        p._tmgr          = None
        p._nodelist      = None
        p._exit_on_error = False
        return p

    def _app_cb(self, pilot, state):
        if self.cur is not None:
            self.cur['cbs'].append([str(pilot.uid), str(state)])

    def _doc(self, pid):
        kind = self.kinds[self.pids.index(pid)]
        jd   = lbase.rpu.FastTypedDict()
        jd.name, jd.executable, jd.arguments = 'job.%s' % pid, '/bin/bash', ['-l', 'bootstrap_0.sh', '-p', pid]
        jd.working_directory, jd.project, jd.queue = '/scratch/%s' % pid, 'proj', 'q'
        jd.output, jd.error = 'bootstrap_0.out', 'bootstrap_0.err'
        jd.node_count, jd.total_cpu_count, jd.total_gpu_count = 1, 8, 0
        jd.wall_time_limit, jd.file_transfer, jd.environment = 10, list(), dict()
        jd.system_architecture = dict()
        return {'uid': pid, 'type': 'pilot', 'pmgr': PMGR, 'state': rps.PMGR_LAUNCHING_PENDING,
                'description': {'resource': 'verif.%s' % kind, 'access_schema': None},
                'jd_dict': jd}

    def _bulk_tail(self, resource, schema, pilots):
        '''the last part of the real _start_pilot_bulk: launcher selection,
           launch_pilots, registration'''
        c, rcfg = self.comp, RCFG[str(resource).split('.')[-1]]
        buckets = defaultdict(list)
        for pilot in pilots:
            for lname, launcher in c._launchers.items():
                if launcher.can_launch(rcfg, pilots):
                    pilot['launcher'] = lname
                    buckets[lname].append(pilot)
                    break
            if not pilot.get('launcher'):
                raise RuntimeError('no launcher found for %s' % pilot['uid'])
        with c._lock:
            for lname, bucket in buckets.items():
                c._launchers[lname].launch_pilots(rcfg, bucket)
                for pilot in bucket:
                    c._pilots[pilot['uid']] = pilot
        for pilot in pilots:
            self._watch_job(pilot['uid'], pilot['launcher'])

    def _watch_job(self, pid, lname):
        job  = self.comp._launchers[lname]._jobs[pid]
        real = job.cancel

        def cancel(*a, **k):
            self.cur['jobc'].append(pid)
            self.jobcs.add(pid)
            return real(*a, **k)
        job.cancel = cancel

    # ---- projections ---------------------------------------------------------------
    def _lview(self, pid):
        p = self.comp._pilots.get(pid)
        if p is None:
            return 'none'
        return str(p['state']) if p['state'] in rps.FINAL else 'live'

    def _post(self):
        pre = [str(x) for x in self.comp._cancelled]
        return {'post': [{'pid': pid, 'lv': self._lview(pid), 'cs': cview(self.pm._pilots[pid].state),
                          'pre': pid in pre} for pid in self.pids],
                'prex': sorted(set(x for x in pre if x not in self.pids)),
                'nctl': len(self.ctlq)}

    def _event(self, ev, fn, **args):
        self.cur = {'msgs': [], 'pubs': [], 'cbs': [], 'jobc': []}
        raised = 'none'
        try:
            fn()
        except Exception as e:
            raised = '%s: %s' % (type(e).__name__, str(e)[:80])
        rec = dict(ev=ev, raised=raised, **args)
        cur, self.cur = self.cur, None
        cur['jobc'] = sorted(set(cur['jobc']))
        rec.update(cur)
        rec.update(self._post())
        self.events.append(rec)
        return rec

    # ---- steps ---------------------------------------------------------------------
    def _job_report(self, pid, state):
        '''the batch system reports the end of the pilot's job to the launcher'''
        lname = self.comp._pilots[pid]['launcher']
        lch   = self.comp._launchers[lname]
        job   = lch._jobs[pid]
        if lname == 'SAGA':
            job.state = {'DONE': self.saga.DONE, 'FAILED': self.saga.FAILED,
                         'CANCELED': self.saga.CANCELED}[state]
            for metric, cb in list(job.callbacks):
                cb(job, metric, job.state)
        else:
            js = self.psij.JobState
            job.status = self.psij.JobStatus({'DONE': js.COMPLETED, 'FAILED': js.FAILED,
                                              'CANCELED': js.CANCELED}[state])
            job.executor._cb(job, job.status)
        self.jobcs.discard(pid)

    def _arg(self, uids, form):
        if form == 'none':
            return None
        if form == 'str':
            assert len(uids) == 1
            return uids[0]
        return list(uids)

    def _apply(self, step):
        op, pm, c = step[0], self.pm, self.comp
        if op == 'work':
            pids = list(step[1])
            self._event('Work', lambda: c.work([self._doc(p) for p in pids]), pids=pids)
        elif op in ('active', 'jobends') and self._lview(step[1]) != 'live':
            pass                              # no such job (any more): nothing can report
        elif op == 'active':
            pid = step[1]
            msg = {'cmd': 'update', 'arg': {'type': 'pilot', 'uid': pid, 'state': rps.PMGR_ACTIVE}}
            self._event('Active', lambda: pm._state_sub_cb(rpc.STATE_PUBSUB, msg), pid=pid)
        elif op == 'jobends':
            pid, state = step[1], step[2]
            self._event('JobEnds', lambda: self._job_report(pid, state), pid=pid, state=state,
                        asked=pid in self.jobcs)
        elif op in ('kill', 'cancel'):
            uids, form = list(step[1]), step[2] if len(step) > 2 else 'list'
            if form == 'pilot':
                fn = lambda: pm._pilots[uids[0]].cancel()
            else:
                meth = pm.kill_pilots if op == 'kill' else pm.cancel_pilots
                arg  = self._arg(uids, form)
                fn   = (lambda: meth()) if form == 'none' else (lambda: meth(arg))
            self._event('Request', fn, api=op, uids=uids, form=form, own=True)
        elif op == 'raw':
            uids, own = list(step[1]), bool(step[2])
            form = step[3] if len(step) > 3 else 'list'
            msg  = {'cmd': 'kill_pilots', 'arg': {'pmgr': PMGR if own else FOREIGN,
                                                   'uids': self._arg(uids, form)}}
            self._event('Request', lambda: self._pmgr_publish(rpc.CONTROL_PUBSUB, msg), api='raw',
                        uids=uids, form=form, own=own)
        elif op == 'close':
            self._event('Request', lambda: pm.close(), api='close', uids=[], form='none', own=True)
        elif op == 'deliver':
            if self.ctlq:
                msg = self.ctlq.pop(0)
                self._event('Deliver', lambda: c.control_cb(rpc.CONTROL_PUBSUB, copy.deepcopy(msg)),
                            msg=self._msg_proj(msg))
        elif op == 'flush':
            while self.ctlq:
                self._apply(['deliver'])
            for pid in self.pids:
                if pid in self.jobcs and self._lview(pid) == 'live':
                    self._apply(['jobends', pid, 'CANCELED'])
        elif op == 'end':
            self._event('End', lambda: None)
        else:
            raise ValueError('unknown step %r' % (step,))

    def run(self):
        hooks     = SZ.Hooks()
        self.psij = SZ.fake_psij(hooks)
        self.saga = SZ.fake_saga(hooks)
        patches = [mock.patch.object(psi_mod,  'psij',    self.psij),
                   mock.patch.object(psi_mod,  'psij_ex', None),
                   mock.patch.object(saga_mod, 'rs',      self.saga),
                   mock.patch.object(saga_mod, 'rs_ex',   None)]
        for pt in patches:
            pt.start()
        try:
            self._build()
            for step in self.script:
                self._apply(step)
        finally:
            for pt in reversed(patches):
                pt.stop()
        return {'pilots': [{'pid': p, 'kind': k} for p, k in zip(self.pids, self.kinds)],
                'ghost': GHOST, 'events': self.events}


# ------------------------------------------------------------------------------
def random_script(rng):
    '''a seeded scenario: 1..3 pilots, environment steps and 1..3 requests in any order'''
    n     = rng.randint(1, 3)
    kinds = [rng.choice(KINDS) for _ in range(n)]
    pids  = PIDS[:n]
    lv    = {p: 'none' for p in pids}
    script, closed, nctl = [], False, 0
    for _ in range(rng.randint(2, 10)):
        x = rng.random()
        new  = [p for p in pids if lv[p] == 'none']
        live = [p for p in pids if lv[p] == 'live']
        if x < 0.25 and new:
            s = rng.sample(new, rng.randint(1, len(new)))
            script.append(['work', sorted(s)])
            for p in s:
                lv[p] = 'live'                        # or dropped: the rig does not care
        elif x < 0.35 and live:
            script.append(['active', rng.choice(live)])
        elif x < 0.50 and live:
            p = rng.choice(live)
            script.append(['jobends', p, rng.choice(['DONE', 'DONE', 'FAILED', 'CANCELED'])])
            lv[p] = 'final'
        elif x < 0.80 and not closed:
            y    = rng.random()
            pool = pids + ([GHOST] if rng.random() < 0.2 else [])
            uids = sorted(rng.sample(pool, rng.randint(0 if y >= 0.4 else 1, len(pool))))
            if y < 0.40:
                api  = rng.choice(['kill', 'kill', 'cancel'])
                form = 'none' if not uids else rng.choice(['list', 'list', 'str' if len(uids) == 1 else 'list'])
                if api == 'cancel' and len(uids) == 1 and uids[0] != GHOST and rng.random() < 0.3:
                    form = 'pilot'
                script.append([api, uids, form])
            elif y < 0.75:
                script.append(['raw', uids, rng.random() < 0.7,
                               'str' if len(uids) == 1 and rng.random() < 0.3 else 'list'])
            elif y < 0.85:
                script.append(['close'])
                closed = True
            else:
                script.append(['kill', [], rng.choice(['none', 'list'])])
            nctl += 1
        elif nctl:
            script.append(['deliver'])
            nctl -= 1
    script += [['flush'], ['end']]
    return kinds, script
