'''
Client-state rig: drives the real client-side notification path

    TaskManager._state_sub_cb -> _update_tasks -> Task._update, _task_cb
    TaskManager._pilot_state_cb -> Task._update
    PilotManager._state_sub_cb -> _update_pilot -> Pilot._update -> callbacks
                                  (incl. the task manager's _pilot_state_cb,
                                  registered on the pilot as add_pilots does)

with real TaskManager / PilotManager / Task / Pilot objects built via __new__
(plus the attributes the methods read).  The pilots are handed to the task
manager through the real TaskManager.add_pilots (which registers
_pilot_state_cb on the real Pilot) and leave it through the real
remove_pilots.  Recording callbacks are registered through the real
register_callback methods.  `advance` (publishing) is replaced
per instance by a recorder.  No threads, no clock, no network.

One event is recorded per call of a real entry point, after it returned (or
raised: an escaping exception is an observation, `raised`).  Every event holds
the projected state of all tasks and pilots and the callbacks delivered during
the call.  For a Notify event the real code is additionally re-run (fresh
objects, same history) on the batch without the entries of one task: that is
the BatchIsolation clause of C06, stated on the real code.

States are logged as integer codes: 0 .. N-1 the non-final states in the order
of the real value tables (states._task_state_values / _pilot_state_values),
N DONE, N+1 FAILED, N+2 CANCELED.

Operations (JSON-able):
    ['notify', [[uid, code], ...]]
    ['notify', [[uid, code, extras], ...]]   extras: further fields of the task
                                             document (values may be None), see
                                             TASK_DOC_FIELDS
    ['remove_pilots', pid | [pid, ...]]      real TaskManager.remove_pilots
    ['add_pilots', pid | [pid, ...]]         real TaskManager.add_pilots (one Pilot
                                             object, or a list of them in one call)
    ['task_update', uid, code, extras]       real Task._update called directly
    ['fault', uid | 'none']                  from now on as_dict of that task raises
                                             (per-instance patch): a per-task
                                             exception inside the callback's loop
    ['death_race', pid, code, how, [[uid, batch], ...]]
        TaskManager._pilot_state_cb as one of two writers of Task.state: when the
        callback has selected `uid` (found it bound and not final) and is about to
        call its Task._update(FAILED), the state subscriber delivers `batch` first
        (same thread, explicit schedule point; _pilot_state_cb holds no lock).
        Recorded as DeathBegin, [Notify, DeathApply]*, DeathEnd.
    ['notify_race', batch, [[point, op], ...]]
        the same race the other way round: TaskManager._update_tasks is under way
        and another thread (the pilot callback: a 'pilot_final' or 'pnotify' op)
        runs at `point`: [uid, k] = before the k-th Task._update of this call on
        uid (k = 0: the passed states are computed, none applied), or
        ['fire', k] = before the k-th TASK_STATE callback of this call.
        Recorded as NotifyBegin, [NotifyPartial, <events of op>]*, NotifyEnd.

    ['api', name, args]                      application calls between notifications:
        'wait_tasks' {uids, state, timeout} / 'list_tasks' / 'get_tasks' {uids}
        (real methods, virtual clock for time.time / time.sleep)
    ['service_info', uid, 'str'|'dict'|'none', 'control'|'direct']
        a service task reports its startup info: the real service_up control
        message handler (TaskManager._control_cb) or Task._set_info
    ['submit', 'pilot'|'tmgr', pid, [uids], k, op]
        real Pilot.submit_tasks / TaskManager.submit_tasks for tasks named in
        `late` (early bound to pid); after the k-th Task object was created (and
        none is registered yet) another thread runs `op` (a 'pilot_final').
        Recorded as SubmitBegin, <events of op unless it has to wait>, SubmitEnd.
    ['cb_register', name, scope, metric]     scope '*' (TaskManager.register_callback)
    ['cb_unregister', name, scope, metric]   or a task uid (Task.register_callback /
        TaskManager.unregister_callback); metric 'state' | 'wait'.  `name` stands
        for one callback object: the same object may be registered on several
        scopes.  What every such callback is told is compared with what the
        rig's own manager-wide recorder is told.
    ['pnotify_race', batch, [pid, k, op]]    PilotManager._state_sub_cb; when
        Pilot._update of pid dispatches its callbacks for the k-th time (the lock
        pilot._cb_lock is held), another thread runs `op` (a 'pilot_register')
    ['pilot_register', pid, name]            real Pilot.register_callback
    ['app_cb', 'cancel_pilot']               registers (real register_callback) an
        application callback that cancels the pilot of a task that FAILED
        (Pilot.cancel -> PilotManager.cancel_pilots -> wait_pilots); the cancel
        request is answered by the pilot manager's subscriber thread delivering
        the pilot's CANCELED notification
    ['pilot_cancel', pid]                    the application thread calls Pilot.cancel

Logical threads and locks: the rig is single threaded; every operation runs as a
named logical thread ('sub' the state subscriber, 'pcb' the pilot callback,
'pmgr' the pilot manager's subscriber).  TaskManager._tasks_lock is replaced by
a lock that knows which logical thread holds it: an operation injected at a
schedule point that needs the lock while the interrupted thread holds it cannot
run there (it would block) and is carried out after the interrupted call
returned.  So a repair that takes the lock is seen as such.  All locks of the
managers and pilots are such locks; they record the acquisition order (lock held
-> lock taken, per logical thread).  A thread that cannot proceed inside an
injected operation stays blocked holding its locks; if the interrupted thread
then needs one of those, that is a deadlock (recorded, the history ends).

Module tables (states.FINAL, INITIAL, the state value maps) are fingerprinted
when the rig is imported; every event says whether they still are what they were
(`tables`).  Nothing is restored inside a history; after a history they are put
back, and a history that finds them changed at its start refuses to run.
    ['bind', uid, pid]                       full task dict with 'pilot'
    ['pilot_final', pid, code, how, echo]    how: 'list' | 'single'
    ['pnotify', [[type, pid, code], ...]]
    ['pnotify', [[type, pid, code, extras], ...]]   extras: further fields of the
                                             pilot document (values may be None),
                                             see PILOT_DOC_FIELDS
'''

import copy
import threading as mt
import collections

from .. import rpshim

rp  = rpshim.load()
ru  = __import__('radical.utils', fromlist=['x'])
rps = rp.states
rpc = rp.constants

from radical.pilot.task_manager     import TaskManager
from radical.pilot.pilot_manager    import PilotManager
from radical.pilot.task             import Task
from radical.pilot.pilot            import Pilot
from radical.pilot.task_description import TaskDescription


# ------------------------------------------------------------------------------
def _codes(values):
    '''state names in code order from a real value table'''
    finals = [rps.DONE, rps.FAILED, rps.CANCELED]
    non    = sorted([(v, k) for k, v in values.items()
                     if k is not None and k not in finals])
    n      = len(non)
    if [v for v, _ in non] != list(range(n)) or \
       any(values[f] != n for f in finals):
        raise RuntimeError('state value table is not a chain + finals: %s' % values)
    return [k for _, k in non] + finals


TNAMES = _codes(rps._task_state_values)      # code -> name
PNAMES = _codes(rps._pilot_state_values)
NT     = len(TNAMES) - 3
NP     = len(PNAMES) - 3
TCODE  = {n: i for i, n in enumerate(TNAMES)}
PCODE  = {n: i for i, n in enumerate(PNAMES)}
BIND_AT = TCODE[rps.TMGR_STAGING_INPUT_PENDING]   # state set by the tmgr scheduler on binding

T_DONE, T_FAILED, T_CANCELED = NT, NT + 1, NT + 2
P_DONE, P_FAILED, P_CANCELED = NP, NP + 1, NP + 2


def constants_text():
    return 'NT = %d\n NP = %d' % (NT, NP)


def tcode(name):
    return TCODE.get(name, 99)


def pcode(name):
    return PCODE.get(name, 99)


# fields of a pilot document that the real update chain reads: Pilot._update
# ('state', 'resources' and its 'rm_info', every key for the None filter and the
# merge into Pilot._pilot_dict, from which the properties resource_details,
# rest_url, log, stdout, stderr, resources are served), _update_pilot
# ('lm_info', 'lm_detail').  Each comes absent, None or present.
PILOT_DOC_FIELDS = {
    'resources'       : [None, {}, {'cpu': 4, 'gpu': 0},
                         {'cpu': 4, 'gpu': 1, 'rm_info': {'cores_per_node': 4, 'node_list': []}}],
    'resource_details': [None, {'cores_per_node': 4}],
    'pilot_sandbox'   : [None, 'file://localhost/tmp/pilot.sandbox/'],
    'stdout'          : [None, '', 'pilot stdout'],
    'stderr'          : [None, 'pilot stderr'],
    'log'             : [None, 'pilot log'],
    'logfile'         : [None, '/tmp/pilot.sandbox/agent_0.log'],
    'rest_url'        : [None, 'http://localhost:1234/'],
    'lm_info'         : [None, {'launcher': 'FORK'}],
    'lm_detail'       : [None, 'fork'],
    'description'     : [None, {'resource': 'local.localhost', 'runtime': 10}],
}


# fields of a task document that Task._update copies besides 'state' and
# 'pilot' (the binding has its own operation): what the agent publishes with a
# full dict, e.g. a task that failed on the agent and is handed back for output
# staging (stage_on_error) already carries exception / exception_detail /
# exit_code.  Each comes absent, None or present.
TASK_DOC_FIELDS = {
    'exception'       : [None, 'RuntimeError("exit code: 1")'],
    'exception_detail': [None, 'Traceback: task exited with exit code: 1'],
    'exit_code'       : [None, 0, 1],
    'stdout'          : [None, '', 'task stdout'],
    'stderr'          : [None, 'task stderr'],
    'return_value'    : [None, 'rv'],
    'task_sandbox'    : [None, 'file://localhost/tmp/task.sandbox/'],
    'target_state'    : [None, 'DONE', 'FAILED'],
    # placement as the agent scheduler publishes it: list of slots (continuous
    # scheduler), or one dict with 'ranks' (hombre scheduler)
    'slots'           : [None,
                         [{'node_name': 'n1', 'node_index': 0, 'cores': [0], 'gpus': [],
                           'lfs': 0, 'mem': 0}],
                         {'ranks': [{'name': 'n1', 'uid': 'n1', 'core_map': [[0]],
                                     'gpu_map': [], 'lfs': 0, 'mem': 0}],
                          'cores_per_node': 4, 'gpus_per_node': 0,
                          'lfs_per_node': 0, 'mem_per_node': 0}],
}


def doc_kind(v):
    if v is None:
        return 'None'
    if isinstance(v, dict):
        return 'dict(%s)' % '+'.join(sorted(v)) if v else 'dict()'
    if isinstance(v, int):
        return 'int%d' % v
    return 'str' if v else 'empty'


class Stalled(Exception):
    '''the virtual clock ran far ahead: the call waits for something that
       cannot happen in this history'''


class VClock(object):
    '''stands in for the `time` module of the managers'''

    def __init__(self):
        self.now = 1000.0

    def time(self):
        return self.now

    def sleep(self, dt):
        self.now += max(dt, 0.01)
        if self.now > 1060.0:
            raise Stalled('virtual clock ran 60 s ahead')


def _tables():
    '''the module level tables the notification path relies on'''
    return {'FINAL'  : list(rps.FINAL), 'INITIAL': list(rps.INITIAL),
            'tvalues': dict(rps._task_state_values), 'pvalues': dict(rps._pilot_state_values),
            'tinv'   : dict(rps._task_state_inv),    'pinv'   : dict(rps._pilot_state_inv)}


def _restore_tables(base):
    rps.FINAL[:]   = base['FINAL']
    rps.INITIAL[:] = base['INITIAL']
    for name, key in (('_task_state_values', 'tvalues'), ('_pilot_state_values', 'pvalues'),
                      ('_task_state_inv', 'tinv'), ('_pilot_state_inv', 'pinv')):
        d = getattr(rps, name)
        d.clear()
        d.update(base[key])


class WouldBlock(BaseException):
    '''the injected logical thread needs a lock the interrupted one holds'''


class TrackingLock(object):
    '''re-entrant lock for logical threads of a single-threaded rig'''

    def __init__(self, rig, name='tmgr._tasks_lock'):
        self.rig, self.name, self.owner, self.depth = rig, name, None, 0
        rig.locks.append(self)

    def acquire(self, blocking=True, timeout=-1):
        me = self.rig._lt
        if self.owner != me:
            # acquisition order: every lock this thread holds comes before this one
            for other in self.rig.locks:
                if other.owner == me and other is not self:
                    self.rig.lock_edges.add((other.name, self.name))
        if self.owner not in (None, me):
            self.rig._wants = self.name
            if self.owner in self.rig.blocked:
                # the owner waits for a lock of ours: nobody moves anymore
                self.rig.deadlock = {'thread': me, 'wants': self.name, 'owner': self.owner,
                                     'blocked': dict(self.rig.blocked)}
            raise WouldBlock()
        self.owner  = me
        self.depth += 1
        return True

    def release(self):
        self.depth -= 1
        if self.depth <= 0:
            self.owner, self.depth = None, 0

    def __enter__(self):
        return self.acquire()

    def __exit__(self, et, ev, tb):
        if et is WouldBlock and self.rig._lt in self.rig.blocking:
            return False          # the thread is stuck further in: it keeps what it holds
        self.release()


LTHREAD = {'notify': 'sub', 'bind': 'sub', 'notify_race': 'sub', 'task_update': 'app',
           'pilot_final': 'pcb', 'death_race': 'pcb', 'pnotify': 'pmgr',
           'api': 'app', 'submit': 'app', 'pilot_cancel': 'app', 'service_info': 'ctl',
           'cb_register': 'app', 'cb_unregister': 'app', 'pilot_register': 'app',
           'pnotify_race': 'pmgr'}

BASE_TABLES = _tables()
if BASE_TABLES['FINAL'] != [rps.DONE, rps.FAILED, rps.CANCELED]:
    raise RuntimeError('states.FINAL is %s when the rig is imported' % BASE_TABLES['FINAL'])


class Reporter(object):
    '''TaskManager._rep: progress() is called once per Task object created by
       submit_tasks, before any of them is registered: a schedule point'''
    def __init__(self, rig):
        self.rig = rig

    def progress(self, *a, **k):
        self.rig._submit_point()

    def __getattr__(self, name):
        return lambda *a, **k: None


class FakeSub(object):
    def __init__(self):
        self.stopped = 0

    def stop(self):
        self.stopped += 1


class FakeSession(object):
    uid = 'rp.session.verif'


class FakePilot(object):
    '''what TaskManager._pilot_state_cb reads of a pilot'''
    def __init__(self, uid, state):
        self.uid   = uid
        self.state = state


# ------------------------------------------------------------------------------
class ClientRig(object):

    def __init__(self, tasks, pilots, init_bound=None, modes=None, add=None, late=None,
                 bulk=False):
        '''modes: {uid: 'service'} (default: executable tasks);
           add  : how the pilots reach the task manager at start: list of groups,
                  a group is a pid (add_pilots(pilot)) or a list of pids
                  (add_pilots([..]) in one call); default: one call per pilot;
                  pilots in no group join later through the 'add_pilots' op'''

        self.tasks  = list(tasks)
        self.pilots = list(pilots)
        self.init_bound = {t: (init_bound or {}).get(t, 'none') for t in self.tasks}
        self.modes  = dict(modes or {})
        self.add    = list(self.pilots) if add is None else list(add)
        self.init_added = [p for g in self.add for p in ru.as_list(g)]
        self._faults = dict()    # uid -> patcher
        self._depth  = 0         # > 0: inside an operation injected at a schedule point
        self._lt     = 'main'    # logical thread that runs the current operation
        self.late    = list(late or [])     # tasks created later by the 'submit' operation
        self.locks      = list()            # all tracking locks
        self.lock_edges = set()             # (held, taken)
        self._edges_seen = set()
        self.blocked    = dict()            # logical thread -> lock it waits for, for good
        self.blocking   = set()             # logical threads run as injected operations
        self.deadlock   = None
        self.clock      = VClock()
        self.bulk       = bool(bulk)        # task_manager._USE_BULK_CB for this history
        self.recs       = dict()            # name -> application callback object
        self.rlog       = list()            # (name, uid, announced, Task.state)
        self.live       = dict()            # (name, scope) -> registered for TASK_STATE
        self._prace     = None              # pnotify_race in progress
        self._unregistered = dict()         # Task objects created, not yet known to the tmgr
        self._cancel_asked = set()
        self._nr_events    = None
        self._wants     = None
        self._submit    = None              # submission in progress
        self._nr        = None              # interrupted notification in progress
        self._app_cbs   = list()
        if _tables() != BASE_TABLES:
            raise RuntimeError('module tables of radical.pilot.states are not what they were when '
                               'the rig was imported (an earlier history changed them)')

        self.tlog   = list()     # (uid, announced, Task.state)   manager-level cb
        self.ulog   = list()     # (uid, announced, Task.state)   task-level cb
        self.plog   = list()     # (pid, announced, Pilot.state)  manager-level cb
        self.pplog  = list()     # (pid, Pilot.state)             pilot-level cb
        self.calls  = list()     # pilots whose callbacks ran with a final state
        self.stray  = 0          # callbacks for pilots nobody registered
        self.published   = list()
        self.control     = list()     # what the task manager put on the control channel
        self.cb_list_sig = False

        log = rpshim.NullLog()

        # ---- task manager ---------------------------------------------------
        tm = TaskManager.__new__(TaskManager)
        tm._uid        = 'tmgr.0000'
        tm._log        = log
        tm._prof       = log
        tm._tasks      = dict()
        tm._tasks_lock = TrackingLock(self, 'tmgr._tasks_lock')
        tm._pilots     = dict()
        tm._pilots_lock = TrackingLock(self, 'tmgr._pilots_lock')
        tm._callbacks  = {m: dict() for m in rpc.TMGR_METRICS}
        tm._tcb_lock   = TrackingLock(self, 'tmgr._tcb_lock')
        tm._known_uids = set(t for t in self.tasks if t not in self.late)
        tm._session    = FakeSession()
        tm._rep        = Reporter(self)
        tm._rpc_queue  = collections.deque()
        tm._terminate  = mt.Event()
        tm._closed     = False
        tm._task_info  = collections.defaultdict(dict)
        tm.advance     = self._tm_advance
        tm.publish     = lambda *a, **k: self.control.append(a)
        self.tm = tm

        for uid in self.tasks:
            if uid not in self.late:
                tm._tasks[uid] = self._make_task(uid, self.init_bound[uid])

        # real registration paths: manager-level (wildcard, with cb_data) and
        # task-level (uid specific)
        # (one callback object for all tasks: Task.register_callback keys by id)
        self._cb_task = self._task_cb_task
        tm.register_callback(self._task_cb_mgr, cb_data={'rig': 1})
        for uid in tm._tasks:
            tm._tasks[uid].register_callback(self._cb_task)

        # ---- pilot manager --------------------------------------------------
        pm = PilotManager.__new__(PilotManager)
        pm._uid         = 'pmgr.0000'
        pm._log         = log
        pm._prof        = log
        pm._pilots      = dict()
        pm._pilots_lock = TrackingLock(self, 'pmgr._pilots_lock')
        pm._callbacks   = {m: dict() for m in rpc.PMGR_METRICS}
        pm._pcb_lock    = TrackingLock(self, 'pmgr._pcb_lock')
        pm._terminate   = mt.Event()
        pm._rep         = rpshim.NullLog()
        pm.advance      = lambda *a, **k: None
        pm.publish      = self._pm_publish
        self.pm = pm

        for pid in self.pilots:
            pilot = self._make_pilot(pid)
            pm._pilots[pid] = pilot
            pilot.register_callback(self._pilot_cb_pilot)
        pm.register_callback(self._pilot_cb_mgr)

        # the real path: attach_tmgr, as_dict, register _pilot_state_cb
        for group in self.add:
            self._add_pilots(group)

    def _add_pilots(self, group):
        if isinstance(group, list):
            return self.tm.add_pilots([self.pm._pilots[p] for p in group])
        return self.tm.add_pilots(self.pm._pilots[group])

    # --------------------------------------------------------------------------
    def _make_task(self, uid, pilot):
        descr = {'uid': uid, 'executable': '/bin/true'}
        if pilot != 'none':
            descr['pilot'] = pilot
        if self.modes.get(uid) == 'service':
            descr['mode'] = rp.TASK_SERVICE
        t = Task.__new__(Task)
        t._tmgr             = self.tm
        t._descr            = TaskDescription(descr)
        t._origin           = 'client'
        t._session          = None
        t._uid              = uid
        t._state            = rps.NEW
        t._log              = self.tm._log
        t._exit_code        = None
        t._stdout           = str()
        t._stderr           = str()
        t._ofiles           = None
        t._return_value     = None
        t._exception        = None
        t._exception_detail = None
        t._info             = None
        t._info_evt         = mt.Event()
        t._pilot            = t._descr.pilot or None      # as Task.__init__
        t._endpoint_fs      = None
        t._resource_sandbox = None
        t._session_sandbox  = None
        t._pilot_sandbox    = None
        t._task_sandbox     = None
        t._client_sandbox   = None
        t._callbacks        = {m: dict() for m in rpc.TMGR_METRICS}
        t._slots            = None
        t._partition        = None
        t._callbacks[rpc.TASK_STATE][t._default_state_cb.__name__] = {
                'cb': t._default_state_cb, 'cb_data': None}
        return t

    def _make_pilot(self, pid):
        p = Pilot.__new__(Pilot)
        p._descr         = {'uid': pid, 'resource': 'local.localhost', 'runtime': 10}
        p._pmgr          = self.pm
        p._session       = FakeSession()
        p._prof          = self.pm._prof
        p._uid           = pid
        p._state         = rps.NEW
        p._log           = self.pm._log
        p._sub           = FakeSub()
        p._pilot_dict    = dict()
        p._callbacks     = {m: dict() for m in rpc.PMGR_METRICS}
        p._cb_lock       = TrackingLock(self, 'pilot._cb_lock')
        p._tmgr          = None
        p._nodelist      = None
        p._exit_on_error = False
        for k in ('_pilot_jsurl', '_pilot_jshop', '_endpoint_fs', '_resource_sandbox',
                  '_session_sandbox', '_pilot_sandbox', '_client_sandbox'):
            setattr(p, k, ru.Url('file://localhost/tmp/%s/%s/' % (pid, k.strip('_'))))
        p._callbacks[rpc.PILOT_STATE][p._default_state_cb.__name__] = {
                'cb': p._default_state_cb, 'cb_data': None}
        return p

    # ---- recorders --------------------------------------------------------------
    def _tm_advance(self, things, state=None, publish=True, push=False, **kw):
        self.published.append([dict(t) for t in ru.as_list(things)])

    # per state: cb(task, state[, cb_data]); bulk mode: cb([tasks][, cb_data]),
    # the announced state is the task's state at that time
    def _task_cb_mgr(self, task, state, cb_data=None):
        if isinstance(task, list):
            for t in sorted(task, key=lambda x: x.uid):
                self.tlog.append((t.uid, tcode(t.state), tcode(t.state)))
        else:
            self.tlog.append((task.uid, tcode(state), tcode(task.state)))

    def _task_cb_task(self, task, state=None):
        if isinstance(task, list):
            for t in sorted(task, key=lambda x: x.uid):
                self.ulog.append((t.uid, tcode(t.state), tcode(t.state)))
        else:
            self.ulog.append((task.uid, tcode(state), tcode(task.state)))

    def _rec(self, name):
        '''the application callback object called `name`'''
        if name not in self.recs:
            def cb(task, state=None, cb_data=None):
                for t in (sorted(task, key=lambda x: x.uid) if isinstance(task, list) else [task]):
                    ann = t.state if isinstance(task, list) else state
                    self.rlog.append((name, t.uid, tcode(ann), tcode(t.state)))
            cb.__name__ = 'cb_%s' % name
            self.recs[name] = cb
        return self.recs[name]

    def _pilot_cb_mgr(self, pilot, state):
        if pilot.uid not in self.pilots:
            self.stray += 1
            return
        self.plog.append((pilot.uid, pcode(state), pcode(pilot.state)))

    def _pilot_cb_pilot(self, arg, state=None):
        # documented as cb(pilot, state); Pilot._update calls cb([pilot])
        if isinstance(arg, list):
            self.cb_list_sig = True
        for pilot in ru.as_list(arg):
            if pilot.uid not in self.pilots:
                self.stray += 1
                continue
            race = self._prace
            if race and race['op'] and pilot.uid == race['pid'] and not self._depth:
                race['n'] += 1
                if race['n'] >= race['k']:
                    # Pilot._update is dispatching its callbacks (holding
                    # pilot._cb_lock): another thread runs now
                    act, race['op'] = race['op'], None
                    evs = self._inject(act)
                    if evs is None:
                        race['waiting'].append(act)
                    else:
                        race['inner'].extend(evs)
            self.pplog.append((pilot.uid, pcode(pilot.state)))
            if pilot.state in rps.FINAL:
                self.calls.append(pilot.uid)

    # ---- projection ---------------------------------------------------------------
    def _mark(self):
        return (len(self.tlog), len(self.ulog), len(self.plog), len(self.pplog),
                len(self.calls), self.stray, len(self.published),
                len(self.rlog), dict(self.live))

    def _as_dict_works(self, task):
        try:
            task.as_dict()
            return True
        except Exception:
            return False

    def _detail(self, task):
        d = task.exception_detail
        if d is None:
            return 'none'
        hit = [p for p in self.pilots if p in str(d).split()]
        return hit[0] if len(hit) == 1 else 'other'

    def _snapshot(self, mark):
        m_t, m_u, m_p, m_pp, m_c, m_s, m_pub, m_r, live = mark
        pub   = set(d.get('uid') for bulk in self.published[m_pub:] for d in bulk
                    if d.get('state') == rps.FAILED)
        tpost = dict()
        for uid in self.tasks:
            task = self.tm._tasks.get(uid) or self._unregistered.get(uid)
            if task is None:                  # to be submitted later in this history
                tpost[uid] = {'st': 0, 'cbs': [], 'at': [], 'tcbs': [], 'pilot': self.init_bound[uid],
                              'det': 'none', 'exc': False, 'pub': False, 'asd': True, 'inj': False,
                              'sk': 'none', 'ex': False, 'regs': [], 'stale': 0}
                continue
            new  = [x for x in self.tlog[m_t:] if x[0] == uid]
            tpost[uid] = {'st'   : tcode(task.state),
                          'cbs'  : [x[1] for x in new],
                          'at'   : [x[2] for x in new],
                          'tcbs' : [x[1] for x in self.ulog[m_u:] if x[0] == uid],
                          'pilot': task.pilot or 'none',
                          'det'  : self._detail(task),
                          'exc'  : task.exception is not None,
                          'pub'  : uid in pub,           # handed to advance as FAILED
                          'asd'  : self._as_dict_works(task),
                          'inj'  : uid in self._faults,  # as_dict fault injected by the rig
                          'sk'   : 'dict' if isinstance(task._slots, dict) else
                                   'list' if task._slots else 'none',
                          'ex'   : uid in self.tm._tasks}        # known to the task manager
            # application callbacks registered (when the operation started) for
            # this task: [name, number of registrations covering the task, states
            # it was told]; and calls of callbacks not registered for it
            names = sorted(set(n for (n, sc) in live if sc in ('*', uid)))
            tpost[uid]['regs']  = [[n, len([1 for (n2, sc) in live if n2 == n and sc in ('*', uid)]),
                                    [x[2] for x in self.rlog[m_r:] if x[0] == n and x[1] == uid]]
                                   for n in names]
            tpost[uid]['stale'] = len([x for x in self.rlog[m_r:] if x[1] == uid and x[0] not in names])
        ppost = dict()
        for pid in self.pilots:
            pilot = self.pm._pilots[pid]
            new   = [x for x in self.plog[m_p:] if x[0] == pid]
            ppost[pid] = {'st'  : pcode(pilot.state),
                          'cbs' : [x[1] for x in new],
                          'at'  : [x[2] for x in new],
                          'pcbs': [x[1] for x in self.pplog[m_pp:] if x[0] == pid]}
        edges = sorted(self.lock_edges - self._edges_seen)
        self._edges_seen |= set(edges)
        return {'tpost': tpost, 'ppost': ppost,
                'tables': _tables() == BASE_TABLES,          # module tables are untouched
                'edges' : [list(e) for e in edges],          # new lock acquisition orders
                'deadlock': self.deadlock is not None,
                'calls': list(self.calls[m_c:]),
                'stray': self.stray - m_s,
                'ntasks': len(self.tm._tasks), 'npilots': len(self.pm._pilots)}

    # ---- real entry points ----------------------------------------------------------
    def _call(self, fn, *args, **kwargs):
        try:
            ret = fn(*args, **kwargs)
            return False, ('true' if ret is True else 'false' if ret is False else
                           'none' if ret is None else 'other')
        except Exception as e:                                    # an observation
            return True, type(e).__name__

    def _notify(self, dicts):
        from unittest import mock
        import radical.pilot.task_manager as tmod
        # the dispatch mode is a module attribute read from the environment at import
        with mock.patch.object(tmod, '_USE_BULK_CB', self.bulk):
            return self._call(self.tm._state_sub_cb, rpc.STATE_PUBSUB,
                              {'cmd': 'update', 'arg': dicts})

    def apply(self, op):
        '''run one operation against the real code, return the recorded events'''
        outer    = self._lt
        self._lt = LTHREAD.get(op[0], 'main')
        try:
            return self._apply(op)
        finally:
            self._lt = outer

    def _inject(self, op):
        '''run `op` as another logical thread at a schedule point of the current
           one; None if it would block on a lock the current one holds'''
        who = LTHREAD.get(op[0], 'main')
        self._depth += 1
        self.blocking.add(who)
        try:
            return self.apply(op)
        except WouldBlock:
            # the injected thread waits (holding what it holds).  For the paths that
            # are deferred and re-run (_update_tasks, _pilot_state_cb: lock first,
            # nothing done before) it holds nothing.
            self.blocked[who] = self._wants
            return None
        finally:
            self.blocking.discard(who)
            self._depth -= 1

    def _resume(self, op):
        '''the interrupted call returned: the thread that waited runs now'''
        who = LTHREAD.get(op[0], 'main')
        self.blocked.pop(who, None)
        for lock in self.locks:
            if lock.owner == who:
                lock.owner, lock.depth = None, 0
        return self.apply(op)

    def _apply(self, op):
        kind = op[0]
        mark = self._mark()

        if kind == 'notify' and self._app_cbs and not self._depth:
            # application callbacks may start other threads: recorded in the
            # begin / partial / end form
            return self._notify_race(['notify_race', op[1], []])

        if kind == 'notify':
            batch = [[e[0], int(e[1])] for e in op[1]]
            dicts = list()
            docs  = list()
            for e in op[1]:
                d = {'type': 'task', 'uid': e[0], 'state': TNAMES[int(e[1])]}
                extras = e[2] if len(e) > 2 and e[2] else {}
                d.update(copy.deepcopy(extras))
                docs.append(','.join('%s=%s' % (k, doc_kind(extras[k]))
                                     for k in sorted(extras)) or 'plain')
                dicts.append(d)
            raised, ret = self._notify(dicts)
            ev = {'ev': 'Notify', 'batch': batch, 'docs': docs, 'iso': []}

        elif kind == 'bind':
            uid, pid = op[1], op[2]
            full = {'type': 'task', 'uid': uid, 'state': TNAMES[BIND_AT], 'pilot': pid,
                    'pilot_sandbox': 'file://localhost/tmp/%s/' % pid,
                    'task_sandbox' : 'file://localhost/tmp/%s/%s/' % (pid, uid),
                    'exception': None, 'exception_detail': None, 'stdout': None}
            raised, ret = self._notify([full])
            ev = {'ev': 'Bind', 'uid': uid, 'pilot': pid, 'state': BIND_AT, 'iso': []}

        elif kind == 'pilot_final':
            pid, code, how = op[1], int(op[2]), op[3]
            fake = FakePilot(pid, PNAMES[code])
            raised, ret = self._call(self.tm._pilot_state_cb,
                                     [fake] if how == 'list' else fake)
            ev = {'ev': 'PilotFinal', 'pilot': pid, 'pst': code}

        elif kind == 'remove_pilots':
            arg = op[1]
            raised, ret = self._call(self.tm.remove_pilots, arg)
            ev = {'ev': 'RemovePilots', 'pilots': list(ru.as_list(arg))}

        elif kind == 'add_pilots':
            raised, ret = self._call(self._add_pilots, op[1])
            ev = {'ev': 'AddPilots', 'pilots': list(ru.as_list(op[1]))}

        elif kind == 'task_update':
            uid, code = op[1], int(op[2])
            d = {'uid': uid, 'state': TNAMES[code]}
            d.update(copy.deepcopy(op[3] if len(op) > 3 and op[3] else {}))
            raised, ret = self._call(self.tm._tasks[uid]._update, d)
            ev = {'ev': 'TaskUpdate', 'uid': uid, 'state': code}

        elif kind == 'fault':
            self._set_fault(op[1])
            return []

        elif kind == 'api':
            from unittest import mock
            import radical.pilot.task_manager as tmod
            name, args = op[1], dict(op[2] if len(op) > 2 and op[2] else {})
            if 'state' in args and args['state'] is not None:
                st = args['state']
                args['state'] = [TNAMES[x] for x in st] if isinstance(st, list) else TNAMES[st]
            with mock.patch.object(tmod, 'time', self.clock):
                raised, ret = self._call(getattr(self.tm, name), **args)
            ev = {'ev': 'ApiCall', 'name': name}

        elif kind == 'service_info':
            uid, what, via = op[1], op[2], op[3]
            info = {'str': 'tcp://10.0.0.1:5000', 'dict': {'url': 'tcp://10.0.0.1:5000', 'n': 1},
                    'none': None}[what]
            if via == 'control':
                raised, ret = self._call(self.tm._control_cb, rpc.CONTROL_PUBSUB,
                                         {'cmd': 'service_up', 'arg': {'uid': uid, 'info': info}})
            else:
                task = self.tm._tasks.get(uid)
                raised, ret = self._call(task._set_info, info) if task else (False, 'none')
            ev = {'ev': 'ServiceInfo', 'uid': uid, 'info': what}

        elif kind in ('cb_register', 'cb_unregister'):
            name, scope = op[1], op[2]
            metric = rpc.TASK_STATE if (op[3] if len(op) > 3 else 'state') == 'state' \
                     else rpc.WAIT_QUEUE_SIZE
            cb = self._rec(name)
            if kind == 'cb_register':
                if scope == '*':
                    raised, ret = self._call(self.tm.register_callback, cb, None, metric)
                elif scope in self.tm._tasks:
                    raised, ret = self._call(self.tm._tasks[scope].register_callback, cb, None, metric)
                else:
                    raised, ret = self._call(self.tm.register_callback, cb, None, metric, scope)
                if not raised and metric == rpc.TASK_STATE:
                    self.live[(name, scope)] = True
            else:
                raised, ret = self._call(self.tm.unregister_callback, cb, metric,
                                         None if scope == '*' else scope)
                if not raised and metric == rpc.TASK_STATE:
                    self.live.pop((name, scope), None)
            ev = {'ev': 'CbRegistry', 'what': kind, 'name': name, 'scope': scope}

        elif kind == 'pilot_register':
            pid, name = op[1], op[2]
            def pcb(pilots, state=None):
                pass
            raised, ret = self._call(self.pm._pilots[pid].register_callback, pcb)
            ev = {'ev': 'PilotRegister', 'pilot': pid}

        elif kind == 'pnotify_race':
            pid, k, act = op[2][0], int(op[2][1]), op[2][2]
            self._prace = {'pid': pid, 'k': k, 'op': act, 'n': 0, 'inner': [], 'waiting': []}
            race = self._prace
            try:
                events = self._apply(['pnotify', op[1]])
            finally:
                self._prace = None
            # (the injected registration changes no state: shown after the notification)
            events += race['inner']
            for w in race['waiting']:
                events += self._resume(w)
            if race['op']:
                events += self.apply(race['op'])
            return events

        elif kind == 'app_cb':
            # an application callback with side effects, through the real registration
            self.tm.register_callback(self._app_cancel_cb)
            self._app_cbs.append(op[1])
            return []

        elif kind == 'pilot_cancel':
            from unittest import mock
            import radical.pilot.pilot_manager as pmod
            pre = list()
            self._nr_events = pre
            try:
                with mock.patch.object(pmod, 'time', self.clock):
                    raised, ret = self._call(self.pm._pilots[op[1]].cancel)
            finally:
                self._nr_events = None
            ev = {'ev': 'PilotCancel', 'pilot': op[1]}
            ev.update({'raised': raised, 'ret': ret})
            ev.update(self._snapshot(self._mark()))
            for u in ev['tpost']:
                ev['tpost'][u].update({'cbs': [], 'at': [], 'tcbs': []})
            return pre + [ev]

        elif kind == 'submit':
            return self._submit_tasks(op)

        elif kind == 'death_race':
            return self._death_race(op)

        elif kind == 'notify_race':
            return self._notify_race(op)

        elif kind == 'pnotify':
            batch = [[e[0], e[1], int(e[2])] for e in op[1]]
            dicts = list()
            docs  = list()
            for e in op[1]:
                ty, p, s = e[0], e[1], int(e[2])
                d = {'uid': p, 'state': PNAMES[s]}
                if ty != 'none':
                    d['type'] = ty
                extras = e[3] if len(e) > 3 and e[3] else {}
                d.update(copy.deepcopy(extras))
                docs.append(','.join('%s=%s' % (k, doc_kind(extras[k]))
                                     for k in sorted(extras)) or 'plain')
                dicts.append(d)
            raised, ret = self._call(self.pm._state_sub_cb, rpc.STATE_PUBSUB,
                                     {'cmd': 'update', 'arg': dicts})
            # the monitor sees <<type, pid, state>>; the shape of the rest of
            # the pilot document is kept as a label
            ev = {'ev': 'PNotify', 'batch': batch, 'docs': docs}

        else:
            raise ValueError('unknown operation %s' % (op,))

        ev.update({'raised': raised, 'ret': ret})
        ev.update(self._snapshot(mark))
        events = [ev]

        # what _pilot_state_cb published comes back on the state pubsub
        if kind == 'pilot_final' and len(op) > 4 and op[4] and len(self.published) > mark[6]:
            echo = [[d['uid'], tcode(d['state'])] for d in self.published[-1]]
            if echo:
                events += self.apply(['notify', echo])
        return events

    # --------------------------------------------------------------------------
    def _pm_publish(self, channel, msg, *a, **k):
        '''PilotManager.publish: a cancel request is enacted elsewhere; the result
           comes back as a state notification in the pilot manager's subscriber
           thread - here and now, as another logical thread'''
        self.control.append((channel, msg))
        if msg.get('cmd') != 'cancel_pilots':
            return
        for pid in msg['arg']['uids']:
            if pid not in self.pm._pilots or self.pm._pilots[pid].state in rps.FINAL:
                continue
            act = ['pnotify', [['pilot', pid, P_CANCELED]]]
            if self._nr:                              # inside an interrupted notification
                self._nr(act)
            else:
                evs = self._inject(act)
                if evs is not None and self._nr_events is not None:
                    self._nr_events.extend(evs)

    def _app_cancel_cb(self, task, state):
        '''application policy: a pilot on which a task failed is not trusted anymore'''
        if state != rps.FAILED or not task.pilot or task.pilot not in self.pm._pilots:
            return
        pilot = self.pm._pilots[task.pilot]
        if pilot.state in rps.FINAL or task.pilot in self._cancel_asked:
            return
        self._cancel_asked.add(task.pilot)
        from unittest import mock
        import radical.pilot.pilot_manager as pmod
        with mock.patch.object(pmod, 'time', self.clock):
            pilot.cancel()

    # --------------------------------------------------------------------------
    def _submit_point(self):
        sub = self._submit
        if not sub or self._depth:
            return
        sub['created'] += 1
        if sub['created'] != sub['k'] or not sub['op']:
            return
        # Task objects exist, none is registered: another thread runs now
        act, sub['op'] = sub['op'], None
        evs = self._inject(act)
        if evs is None:
            sub['waiting'].append(act)
        else:
            sub['inner'].extend(evs)

    def _submit_tasks(self, op):
        from unittest import mock
        via, pid, uids, k = op[1], op[2], list(op[3]), int(op[4]) if len(op) > 4 else 0
        act = op[5] if len(op) > 5 else None
        tds = list()
        for uid in uids:
            d = {'uid': uid, 'executable': '/bin/true'}
            if self.modes.get(uid) == 'service':
                d['mode'] = rp.TASK_SERVICE
            if via == 'tmgr' and pid != 'none':
                d['pilot'] = pid
            tds.append(TaskDescription(d))
        mark  = self._mark()
        begin = {'ev': 'SubmitBegin', 'uids': uids, 'pilot': pid, 'raised': False, 'ret': 'none'}
        begin.update(self._snapshot(mark))
        self._submit = {'k': k, 'op': act, 'created': 0, 'inner': [], 'waiting': []}
        sub = self._submit

        # keep an eye on the Task objects from their creation on
        rig, real_init = self, Task.__init__

        def _init(task, tmgr, descr, origin):
            real_init(task, tmgr, descr, origin)
            rig._unregistered[task.uid] = task

        try:
            with mock.patch.object(Task, '__init__', _init):
                if via == 'pilot':
                    raised, ret = self._call(self.pm._pilots[pid].submit_tasks, tds)
                else:
                    raised, ret = self._call(self.tm.submit_tasks, tds)
        finally:
            self._submit = None
        for uid in uids:
            self._unregistered.pop(uid, None)
            if uid in self.tm._tasks:
                self.tm._tasks[uid].register_callback(self._cb_task)
        end = {'ev': 'SubmitEnd', 'uids': uids, 'pilot': pid, 'raised': raised, 'ret': ret}
        end.update(self._snapshot(self._mark()))
        events = [begin] + sub['inner'] + [end]
        for w in sub['waiting']:
            events += self._resume(w)
        if sub['op']:                                 # point never reached
            events += self.apply(sub['op'])
        return events

    # --------------------------------------------------------------------------
    def _set_fault(self, uid):
        for u in list(self._faults):
            self._faults.pop(u).stop()
        if uid and uid != 'none':
            from unittest import mock
            patcher = mock.patch.object(self.tm._tasks[uid], 'as_dict',
                                        side_effect=RuntimeError('injected: as_dict of %s' % uid))
            patcher.start()
            self._faults[uid] = patcher

    def _death_race(self, op):
        from unittest import mock
        pid, code, how = op[1], int(op[2]), op[3]
        windows = {w[0]: w[1] for w in (op[4] if len(op) > 4 else [])}
        inner   = list()
        blocked = dict()
        mark0   = self._mark()
        begin   = {'ev': 'DeathBegin', 'pilot': pid, 'pst': code, 'raised': False, 'ret': 'none'}
        begin.update(self._snapshot(mark0))

        def wrap(task):
            real = task._update                       # the real bound method

            def _update(task_dict, reconnect=False):
                if self._depth:                       # a call of the subscriber path
                    return real(task_dict, reconnect)
                uid = task.uid
                if uid in windows:                    # schedule point: selected, not yet applied
                    batch = windows.pop(uid)
                    evs   = self._inject(['notify', batch])
                    if evs is None:                   # the subscriber waits for the lock
                        blocked[uid] = batch
                    else:
                        inner.extend(evs)
                mark = self._mark()
                ev   = {'ev': 'DeathApply', 'pilot': pid, 'uid': uid, 'raised': False, 'ret': 'none'}
                try:
                    return real(task_dict, reconnect)
                except Exception as e:
                    ev.update({'raised': True, 'ret': type(e).__name__})
                    raise
                finally:
                    ev.update(self._snapshot(mark))
                    inner.append(ev)
            return mock.patch.object(task, '_update', _update)

        patchers = [wrap(t) for t in self.tm._tasks.values()]
        for p_ in patchers:
            p_.start()
        try:
            fake = FakePilot(pid, PNAMES[code])
            raised, ret = self._call(self.tm._pilot_state_cb,
                                     [fake] if how == 'list' else fake)
        finally:
            for p_ in patchers:
                p_.stop()
        end = {'ev': 'DeathEnd', 'pilot': pid, 'raised': raised, 'ret': ret}
        end.update(self._snapshot(mark0))
        # the callbacks of the whole call were shown with the inner events
        for u in end['tpost']:
            end['tpost'][u].update({'cbs': [], 'at': [], 'tcbs': []})
        events = [begin] + inner + [end]
        # windows the callback never reached (task not selected), notifications that
        # had to wait for the lock: delivered afterwards
        for uid in list(blocked):
            events += self._resume(['notify', blocked.pop(uid)])
        for uid in list(windows):
            events += self.apply(['notify', windows.pop(uid)])
        return events

    def _notify_race(self, op):
        from unittest import mock
        points  = {(p[0][0], int(p[0][1])): p[1] for p in (op[2] if len(op) > 2 else [])}
        counts  = collections.Counter()
        inner   = list()
        waiting = list()
        last    = [self._mark()]
        begin   = {'ev': 'NotifyBegin', 'batch': [[e[0], int(e[1])] for e in op[1]],
                   'raised': False, 'ret': 'none'}
        begin.update(self._snapshot(last[0]))

        def interrupt(act):
            # where the interrupted call stands
            part = {'ev': 'NotifyPartial', 'raised': False, 'ret': 'none'}
            part.update(self._snapshot(last[0]))
            evs = self._inject(act)
            if evs is None:
                waiting.append(act)                   # the other thread waits for the lock
                return
            inner.append(part)
            inner.extend(evs)
            last[0] = self._mark()

        def point(key):
            if self._depth or key not in points:
                return
            interrupt(points.pop(key))

        self._nr = interrupt

        def wrap(task):
            real = task._update

            def _update(task_dict, reconnect=False):
                if not self._depth:
                    k = counts[task.uid]
                    counts[task.uid] += 1
                    point((task.uid, k))
                return real(task_dict, reconnect)
            return mock.patch.object(task, '_update', _update)

        real_cb = self.tm._task_cb

        def _task_cb(task, state):
            if not self._depth:
                k = counts['fire']
                counts['fire'] += 1
                point(('fire', k))
            return real_cb(task, state)

        patchers = [wrap(t) for t in self.tm._tasks.values()] + \
                   [mock.patch.object(self.tm, '_task_cb', _task_cb)]
        for p_ in patchers:
            p_.start()
        try:
            dicts = list()
            for e in op[1]:
                d = {'type': 'task', 'uid': e[0], 'state': TNAMES[int(e[1])]}
                d.update(copy.deepcopy(e[2] if len(e) > 2 and e[2] else {}))
                dicts.append(d)
            raised, ret = self._notify(dicts)
        finally:
            self._nr = None
            for p_ in patchers:
                p_.stop()
        if self.deadlock:
            waiting[:] = []                           # nobody moves anymore
        end = {'ev': 'NotifyEnd', 'batch': begin['batch'], 'raised': raised, 'ret': ret}
        end.update(self._snapshot(last[0]))
        events = [begin] + inner + [end]
        # points never reached, threads that waited for the lock: run afterwards
        for act in waiting:
            events += self._resume(act)
        for act in [points[k] for k in sorted(points, key=str)]:
            events += self.apply(act)
        return events

    # --------------------------------------------------------------------------
    def run(self, ops, iso=True):
        events = list()
        try:
            for k, op in enumerate(ops):
                pre = {u: tcode(self.tm._tasks[u].state) if u in self.tm._tasks else 0
                       for u in self.tasks}
                evs = self.apply(op)
                if iso and op[0] == 'notify' and evs and evs[0]['ev'] == 'Notify':
                    evs[0]['iso'] = self._isolation(ops, k, pre)
                events += evs
                if self.deadlock:                     # nobody moves anymore
                    break
        finally:
            self.close()
        return {'tasks': self.tasks, 'pilots': self.pilots,
                'init_bound': self.init_bound, 'init_added': self.init_added,
                'bulk': self.bulk, 'events': events}

    def close(self):
        '''end of a history: one history must not poison the next'''
        self._set_fault(None)
        if _tables() != BASE_TABLES:
            _restore_tables(BASE_TABLES)

    def _isolation(self, ops, k, pre):
        '''the real code on the same history, batch without the entries of one
           uid; an empty remainder leaves the tasks where they were'''
        batch = ops[k][1]
        out   = list()
        for rm in sorted(set(e[0] for e in batch)):
            rest = [e for e in batch if e[0] != rm]
            if rest:
                if _tables() != BASE_TABLES:          # an earlier step changed the tables:
                    out.append({'rm': rm, 'post': {u: {'st': pre[u], 'cbs': []} for u in self.tasks}})
                    continue                          # no clean second run to compare with
                other = ClientRig(self.tasks, self.pilots, self.init_bound, self.modes, self.add,
                                  self.late, self.bulk)
                tr    = other.run(list(ops[:k]) + [['notify', rest]], iso=False)
                tpost = tr['events'][-1]['tpost']
                post  = {u: {'st': tpost[u]['st'], 'cbs': tpost[u]['cbs']} for u in self.tasks}
            else:
                post  = {u: {'st': pre[u], 'cbs': []} for u in self.tasks}
            out.append({'rm': rm, 'post': post})
        return out


def run_ops(tasks, pilots, init_bound, ops, iso=True, modes=None, add=None, late=None, bulk=False):
    return ClientRig(tasks, pilots, init_bound, modes, add, late, bulk).run(ops, iso=iso)
