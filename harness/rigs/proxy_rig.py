'''
Proxy rig (C05, Agent_0's proxy hops): a REAL Agent_0 object (Agent_0.__new__ +
the attributes its methods read) whose REAL initialize() registers the hops on
in-memory queue stand-ins (get_input_ep / get_output_ep of the instance return
them), served by the REAL BaseComponent.work_cb:

  input hop  : proxy_task_queue[qname=pilot] -> _proxy_input_cb  -> agent_staging_input_queue
               (incl. the real _launch_service_task for TASK_SERVICE tasks)
  output hop : agent_collecting_queue        -> _proxy_output_cb -> proxy_task_queue[qname=session]

Nothing moves unless the script takes a step:
  ['put', k]        the client puts bulk k on the proxy queue (qname = pilot id)
  ['cancel', k]     control message k (cancel_tasks) through the real _control_cb
  ['take']          the agent pipeline takes the next bulk from the staging input queue
  ['emit', [uids]]  the agent pipeline hands these tasks (state TMGR_STAGING_OUTPUT_PENDING)
                    to the collecting queue as one bulk
  ['work', which]   one real work_cb round; which = in | out | both tells which of the
                    two polls finds its bulk already arrived
After the script both hops are served until nothing moves.  One event per
queue operation / publication is recorded for ProxyTrace.tla.

Service tasks: _service_start_evt is a stand-in whose wait() plays the service:
  up      : the real control path delivers service_info(error=None) -> event set
  timeout : the service reports an error (as the wrapper does), the description
            has a startup_timeout, wait(timeout) returns False
  never   : the service reports an error / nothing, no startup_timeout:
            wait() would block for ever -> recorded as 'Stuck', the thread is gone
'''

import os
import copy
import random
import threading as mt

from unittest import mock

from .. import rpshim

rp  = rpshim.load()
ru  = __import__('radical.utils', fromlist=['x'])
rps = rp.states
rpc = rp.constants

import radical.pilot.agent.agent_0 as m_agent0

SID = 'rp.session.verif'
PID = 'pilot.0000'
TASK_ENV = {'RP_APPCOMM_IN': 'tcp://n0:1', 'RP_APPCOMM_OUT': 'tcp://n0:2'}


class Hang(BaseException):
    '''the calling thread would block for ever'''


class Scenario(object):
    '''
    tasks   : list of dict(uid, svc in {no, up, timeout, never})
    bulks   : list of uid lists put by the client (in order)
    cancels : list of uid lists (one control message each)
    taskenv : the resource config has a task_environment
    '''
    def __init__(self, tasks, bulks, cancels=(), taskenv=False):
        self.tasks   = tasks
        self.bulks   = [list(b) for b in bulks]
        self.cancels = [list(c) for c in cancels]
        self.taskenv = bool(taskenv)

    def as_dict(self):
        return {'tasks': self.tasks, 'bulks': self.bulks, 'cancels': self.cancels,
                'taskenv': self.taskenv}


def diff(a, b):
    '''keys in which two task dicts differ ('description' one level deeper)'''
    out = []
    for k in sorted(set(a) | set(b)):
        if k == 'description' and isinstance(a.get(k), dict) and isinstance(b.get(k), dict):
            da, db = a[k], b[k]
            for kk in sorted(set(da) | set(db)):
                if da.get(kk) != db.get(kk):
                    out.append('description.%s' % kk)
        elif a.get(k) != b.get(k):
            out.append(k)
    return out


class ProxyRig(object):

    def __init__(self, scn, script, mutate=None):
        self.scn     = scn
        self.script  = script
        self.spec    = {t['uid']: t for t in scn.tasks}
        self.events  = []
        self.q       = {}            # (channel, qname) -> list of bulks
        self.entered = {'in': {}, 'out': {}}
        self.inagent = []            # task dicts held by the agent pipeline
        self.hop     = 'in'          # hop whose bulk work_cb is working on
        self.mask    = 'both'
        self.raised  = False
        self.stuck   = False
        self.error   = None
        self.proj    = []            # queue contents after every script step
        self.mutate  = mutate
        self._build()

    # ----------------------------------------------------------------------
    def emit(self, ev, **kw):
        e = {'ev': ev}
        e.update(kw)
        self.events.append(e)

    def queue(self, chan, qname=None):
        return self.q.setdefault((chan, qname or 'none'), [])

    def hop_of(self, chan):
        return {rpc.PROXY_TASK_QUEUE: 'in', rpc.AGENT_COLLECTING_QUEUE: 'out'}.get(chan, 'none')

    # ----------------------------------------------------------------------
    def _build(self):
        rig = self

        class Getter(object):
            def __init__(s, chan):
                s.channel = chan
            def get_nowait(s, qname=None, timeout=None):
                hop = rig.hop_of(s.channel)
                if rig.mask not in ('both', hop):
                    return []                       # nothing arrived within the poll
                q = rig.queue(s.channel, qname)
                if not q:
                    return []
                bulk = q.pop(0)
                rig.hop = hop
                rig.emit('Got', hop=hop, chan=s.channel, qname=qname or 'none',
                         uids=[t['uid'] for t in bulk])
                return bulk
            def stop(s):
                pass

        class Putter(object):
            def __init__(s, chan):
                s.channel = chan
            def put(s, things, qname=None):
                things = ru.as_list(things)
                bulk   = [copy.deepcopy(dict(t)) for t in things]     # the wire serialises
                rig.queue(s.channel, qname).append(bulk)
                ent = rig.entered[rig.hop]
                rig.emit('Fwd', hop=rig.hop, chan=s.channel, qname=qname or 'none',
                         uids=[t['uid'] for t in bulk], states=[t['state'] for t in bulk],
                         changed=[rig._changed(ent.get(t['uid']), t) for t in bulk])

        class Pub(object):
            def put(s, topic, msg):
                if topic == rpc.STATE_PUBSUB and msg.get('cmd') == 'update':
                    for t in ru.as_list(msg.get('arg')):
                        if t.get('type') != 'task':
                            continue
                        rig.emit('PubState', hop=rig.hop, uid=t['uid'], state=t['state'],
                                 full='description' in t, fwd=bool(msg.get('fwd')),
                                 target=str(t.get('target_state') or 'none'),
                                 control=str(t.get('control') or 'none'), raised=bool(rig.raised))
                elif topic == rpc.CONTROL_PUBSUB:
                    rig.emit('PubCtrl', cmd=str(msg.get('cmd')),
                             uid=str((msg.get('arg') or {}).get('uid', 'none')))

        class Evt(object):
            '''_service_start_evt: wait() plays the service which was just launched'''
            def __init__(s):
                s.flag = False
            def clear(s):
                s.flag = False
            def set(s):
                s.flag = True
            def is_set(s):
                return s.flag
            def wait(s, timeout=None):
                uid  = rig.agent._service_uid_launched
                kind = rig.spec.get(uid, {}).get('svc', 'up')
                if kind == 'up':
                    err = None
                else:
                    err = 'startup timeout' if kind == 'timeout' else 'command failed'
                # the control subscriber thread delivers what the service wrapper sent
                rig.agent._control_cb(rpc.CONTROL_PUBSUB,
                                      {'cmd': 'service_info',
                                       'arg': {'uid': uid, 'error': err, 'info': 'tcp://n0:9'}})
                rig.emit('SvcWait', uid=uid, kind=kind, up=bool(s.flag),
                         timeout=int(timeout or 0))
                if s.flag:
                    return True
                if timeout:
                    return False
                raise Hang(uid)

        class Reg(dict):
            pass

        a = m_agent0.Agent_0.__new__(m_agent0.Agent_0)
        self.agent = a
        a._uid   = 'agent_0'
        a._pid   = PID
        a._sid   = SID
        a._pmgr  = 'pmgr.0000'
        a._owner = PID
        a._log   = rpshim.NullLog()
        a._prof  = rpshim.NullLog()
        a._cfg   = ru.Config(from_dict={'pid': PID, 'sid': SID, 'uid': 'agent_0',
                                        'services': [], 'pilot_sandbox': '/sbox/' + PID,
                                        'session_sandbox': '/sbox', 'resource_sandbox': '/'})
        sess = mock.Mock()
        rcfg = {'resource_manager': 'FORK'}
        if self.scn.taskenv:
            rcfg['task_environment'] = dict(TASK_ENV)
        sess.rcfg = ru.Config(from_dict=rcfg)
        sess.uid  = SID
        a._session = sess
        a._reg   = Reg()
        rm = mock.Mock()
        rm.info = {'node_list': [{'name': 'n0', 'index': 0}], 'cores_per_node': 2, 'gpus_per_node': 0}
        a._rm    = rm
        a._term  = mt.Event()
        a._cancel_lock = mt.RLock()
        a._cancel_list = list()
        a._rpc_reqs    = dict()
        a._inputs, a._outputs, a._workers = dict(), dict(), dict()
        a._publishers  = {rpc.STATE_PUBSUB: Pub(), rpc.CONTROL_PUBSUB: Pub()}
        a._subscribers = dict()
        a._service     = None
        a._service_uid_launched = None
        a._service_uids_running = list()
        a._service_start_evt    = Evt()
        a._service_lock         = mt.Lock()
        a._final_cause = None
        a.get_input_ep  = lambda qname: Getter(qname)
        a.get_output_ep = lambda qname: Putter(qname)
        a.register_rpc_handler = lambda *x, **k: None
        a.rpc = lambda *x, **k: None

        # the real queue registration (and the rest of the real initialize)
        with mock.patch.dict(os.environ, {'RP_VENV_TYPE': 'venv', 'RP_VENV_PATH': '/venv'}):
            a.initialize()

        # note whether a hop's callback raised (work_cb then fails the things it passed)
        for st in list(a._workers):
            real = a._workers[st]
            def _w(things, real=real):
                try:
                    return real(things)
                except Exception:
                    rig.raised = True
                    raise
            a._workers[st] = _w
        self.emit('Registered',
                  inputs=sorted('%s:%s:%s' % (v['queue'].channel, v['qname'] or 'none',
                                              ','.join(v['states'])) for v in a._inputs.values()),
                  outputs=sorted('%s:%s' % (st, o.channel) for st, o in a._outputs.items()))

        # the tasks as the task manager sends them
        self.tasks = {}
        for t in self.scn.tasks:
            d = {'uid': t['uid'], 'executable': '/bin/date', 'arguments': ['-u']}
            if t['svc'] != 'no':
                d['mode'] = rp.TASK_SERVICE
                d['executable'] = '/bin/sleep'
                d['arguments']  = ['100']
                if t['svc'] == 'timeout':
                    d['startup_timeout'] = 5
            td = rp.TaskDescription(d)
            td.verify()
            sbox = '/sbox/%s/%s' % (PID, t['uid'])
            self.tasks[t['uid']] = {
                'uid': t['uid'], 'type': 'task', 'name': t['uid'], 'origin': 'client',
                'state': rps.AGENT_STAGING_INPUT_PENDING, 'pilot': PID, 'tmgr': 'tmgr.0000',
                'description': td.as_dict(), 'task_sandbox': 'file://localhost' + sbox,
                'task_sandbox_path': sbox, 'pilot_sandbox': '/sbox/' + PID,
                'session_sandbox': '/sbox', 'resource_sandbox': '/',
                'resources': {'cpu': 1, 'gpu': 0}, 'states': ['NEW']}

        if self.mutate:
            self.mutate(self)

    def _changed(self, entered, left):
        if entered is None:
            return ['unknown']
        ch = diff(entered, left)
        if self.spec.get(left['uid'], {}).get('svc', 'no') != 'no':
            ch = sorted(set('description' if c.startswith('description.') else c for c in ch))
        return ch

    # ----------------------------------------------------------------------
    def projection(self):
        u = lambda q: [[t['uid'] for t in b] for b in q]
        return {'pin' : u(self.queue(rpc.PROXY_TASK_QUEUE, PID)),
                'ain' : u(self.queue(rpc.AGENT_STAGING_INPUT_QUEUE)),
                'coll': u(self.queue(rpc.AGENT_COLLECTING_QUEUE)),
                'pout': u(self.queue(rpc.PROXY_TASK_QUEUE, SID)),
                'inagent': sorted(t['uid'] for t in self.inagent),
                'clist': sorted(self.agent._cancel_list),
                'stuck': bool(self.stuck)}

    def work(self, which):
        if self.stuck:
            return                                  # the one thread never came back
        a = self.agent
        self.mask, self.raised = which, False
        try:
            a.work_cb()
            self.emit('WorkEnd', which=which, raised=bool(self.raised))
        except Hang as e:
            self.stuck = True
            self.emit('Stuck', uid=str(e))
        except Exception as e:                      # work_cb itself died
            self.error = repr(e)
            self.emit('WorkEnd', which=which, raised=True)
        finally:
            self.mask = 'both'

    def step(self, st):
        a, op = self.agent, st[0]
        if op == 'put':
            bulk = [copy.deepcopy(self.tasks[u]) for u in self.scn.bulks[st[1]]]
            for t in bulk:
                self.entered['in'][t['uid']] = copy.deepcopy(t)
            self.queue(rpc.PROXY_TASK_QUEUE, PID).append(bulk)
            self.emit('Put', hop='in', uids=[t['uid'] for t in bulk])
        elif op == 'cancel':
            uids = list(self.scn.cancels[st[1]])
            self.emit('CancelMsg', uids=uids)
            a._control_cb(rpc.CONTROL_PUBSUB, {'cmd': 'cancel_tasks', 'arg': {'uids': uids}})
        elif op == 'take':
            q = self.queue(rpc.AGENT_STAGING_INPUT_QUEUE)
            if q:
                self.inagent.extend(q.pop(0))
                self.emit('Take')
        elif op == 'emit':
            bulk = []
            for u in st[1]:
                for i, t in enumerate(self.inagent):
                    if t['uid'] == u:
                        bulk.append(self.inagent.pop(i))
                        break
            if bulk:
                for t in bulk:                       # what agent staging output hands on
                    t['state'] = rps.TMGR_STAGING_OUTPUT_PENDING
                    t['target_state'] = rps.DONE
                    t['exit_code'] = 0
                    self.entered['out'][t['uid']] = copy.deepcopy(t)
                self.queue(rpc.AGENT_COLLECTING_QUEUE).append(bulk)
                self.emit('Put', hop='out', uids=[t['uid'] for t in bulk])
        elif op == 'work':
            self.work(st[1])
        else:
            raise ValueError('unknown step %r' % (st,))

    def run(self):
        for st in self.script:
            self.step(st)
            self.proj.append(self.projection())
        return self.finish()

    def finish(self):
        # serve both hops until nothing moves
        for _ in range(200):
            if self.stuck or self.error or not (self.queue(rpc.PROXY_TASK_QUEUE, PID) or
                                                self.queue(rpc.AGENT_COLLECTING_QUEUE)):
                break
            self.work('both')
        p = self.projection()
        self.emit('End', error=self.error or 'none', stuck=bool(self.stuck),
                  pin=[u for b in p['pin'] for u in b], coll=[u for b in p['coll'] for u in b],
                  pout=[u for b in p['pout'] for u in b], ain=[u for b in p['ain'] for u in b])
        return self.trace()

    def trace(self):
        return {'uids': [t['uid'] for t in self.scn.tasks], 'sid': SID, 'pid': PID,
                'svc': {t['uid']: t['svc'] for t in self.scn.tasks},
                'taskenv': self.scn.taskenv, 'events': self.events,
                'script': [list(s) for s in self.script]}


# ------------------------------------------------------------------------------
def random_scenario(rng, services=True):
    n = rng.randint(2, 5)
    tasks = []
    bad = rng.choice(['timeout', 'never'])      # at most one kind of failing service per scenario
    for i in range(n):
        svc = 'no'
        if services and rng.random() < 0.2:
            svc = rng.choice(['up', 'up', bad, bad])
        tasks.append({'uid': ('s%d' if svc != 'no' else 't%d') % (i + 1), 'svc': svc})
    uids, bulks = [t['uid'] for t in tasks], []
    while uids:
        k = rng.randint(1, min(3, len(uids)))
        bulks.append(uids[:k])
        uids = uids[k:]
    all_uids = [t['uid'] for t in tasks]
    cancels = [rng.sample(all_uids, rng.randint(1, 2)) for _ in range(rng.choice([0, 0, 1, 2]))]
    return Scenario(tasks, bulks, cancels, taskenv=rng.random() < 0.3)


def random_script(rng, scn, length=None):
    '''an interleaving of the environment's steps and work_cb rounds'''
    script, nput, ncan = [], 0, 0
    fwd = []                        # steps which find nothing to do are no-ops
    for _ in range(length or rng.randint(6, 30)):
        x = rng.random()
        if x < 0.2 and nput < len(scn.bulks):
            script.append(['put', nput]); fwd.extend(scn.bulks[nput]); nput += 1
        elif x < 0.3 and ncan < len(scn.cancels):
            script.append(['cancel', ncan]); ncan += 1
        elif x < 0.5:
            script.append(['take'])
        elif x < 0.7 and fwd:
            k = rng.randint(1, min(3, len(fwd)))
            pick = rng.sample(fwd, k)
            script.append(['emit', sorted(pick)])
        else:
            script.append(['work', rng.choice(['in', 'out', 'both'])])
    while nput < len(scn.bulks):
        script.append(['put', nput]); nput += 1
    script += [['work', 'both'], ['take'], ['take'], ['take'], ['take'],
               ['emit', [t['uid'] for t in scn.tasks]], ['work', 'both']]
    return script
