'''
AgentLife rig: applies event sequences (lifetime checks at chosen virtual times,
cancel_pilots / terminate control messages, stop()) to a REAL Agent_0 object
through its real methods, then runs the real finalize() in a scratch working
directory and reads back what it wrote (killme.signal) and published (final
state update); optionally evaluates the tail of bootstrap_0.sh which turns the
signal file into the final state.  One event per call for AgentLifeTrace.tla.

The agent is built with Agent_0.__new__ plus the attributes the methods read;
`time` of agent_0.py is a virtual clock, publish / advance are recorders on the
instance, session and resource manager are stand-ins with close() / stop().
Callbacks of the real agent are serialised by the component's callback lock,
so one event == one call.

script events (python lists):
  ['tick', minutes]            set the virtual clock to start + minutes
  ['lifetime']                 agent._check_lifetime()
  ['cancel', [uids]]           agent._control_cb(topic, {cmd: cancel_pilots, arg: {uids}})
  ['terminate']                agent._control_cb(topic, {cmd: terminate})
  ['stop']                     agent.stop()
  ['finalize']                 agent.finalize()
  ['boot']                     tail of bootstrap_0.sh in the agent's directory
'''

import os
import re
import shutil
import tempfile
import subprocess
import threading as mt

from unittest import mock

from .. import rpshim

rp  = rpshim.load()
ru  = __import__('radical.utils', fromlist=['x'])
rpc = rp.constants

import radical.pilot.agent.agent_0 as m_agent0

ME     = 'pilot.0000'
OTHERS = ['pilot.0001', 'pilot.0002']
T0     = 1000000.0

BOOTSTRAP = os.path.join(os.path.dirname(m_agent0.__file__), 'bootstrap_0.sh')


class _Clock(object):
    def __init__(self):
        self.now = T0
    def time(self):
        return self.now
    def sleep(self, dt):
        self.now += dt


class _Stub(object):
    def __init__(self):
        self.calls = []
    def __getattr__(self, name):
        def f(*a, **k):
            self.calls.append(name)
        return f


# ------------------------------------------------------------------------------
_fragment = None


def boot_fragment():
    '''the tail of bootstrap_0.sh which maps killme.signal to the final state:
       from the last `if test -e "./killme.signal"` to the `fi` which follows
       final_state='FAILED'.  Returned only if it consists of nothing but
       test / cat / echo / assignments (safe to evaluate), else None.'''
    global _fragment
    if _fragment is not None:
        return _fragment or None
    _fragment = ''
    try:
        txt = open(BOOTSTRAP).read()
        i   = txt.rindex('if test -e "./killme.signal"')
        j   = txt.index("final_state='FAILED'", i)
        j   = txt.index('\nfi', j) + 3
        frag = txt[i:j]
        ok = re.compile(r'^\s*(#.*|if !? ?test .*|then|fi|else|echo .*|'
                        r'[A-Za-z_]+=\$\(cat \./killme\.signal\)|[A-Za-z_]+=[\w\']*)\s*$')
        if all(ok.match(line) for line in frag.splitlines() if line.strip()):
            _fragment = frag
    except Exception:
        pass
    return _fragment or None


def run_boot(cwd):
    frag = boot_fragment()
    if not frag:
        return 'skipped'
    script = 'AGENT_EXITCODE=1\nfinal_state=""\n%s\necho "FINAL_STATE=$final_state"\n' % frag
    p = subprocess.run(['/bin/bash', '-c', script], cwd=cwd, stdout=subprocess.PIPE,
                       stderr=subprocess.STDOUT, timeout=20)
    m = re.search(r'^FINAL_STATE=(.*)$', p.stdout.decode('utf-8', 'replace'), re.M)
    return m.group(1).strip() if m else 'unparsed'


# ------------------------------------------------------------------------------
class AgentLifeRig(object):

    def __init__(self, runtime, script, boot=True):
        self.runtime = runtime
        self.script  = script
        self.boot    = boot
        self.events  = []
        self.clock   = _Clock()
        self.pubs    = []
        self.adv     = []

    def _build(self):
        log = rpshim.NullLog()
        a = m_agent0.Agent_0.__new__(m_agent0.Agent_0)
        a._uid         = 'agent_0'
        a._pid         = ME
        a._pmgr        = 'pmgr.0000'
        a._owner       = ME
        a._log         = log
        a._prof        = log
        a._cfg         = ru.Config(from_dict={'runtime': self.runtime, 'pid': ME, 'uid': 'agent_0'})
        a._term        = mt.Event()
        a._session     = _Stub()
        a._rm          = _Stub()
        a._cancel_lock = mt.RLock()
        a._cancel_list = list()
        a._rpc_reqs    = dict()
        a._starttime   = self.clock.time()
        a._final_cause = None
        a.publish      = lambda channel, msg, *x, **k: self.pubs.append((channel, msg))
        a.advance      = lambda things, *x, **k: self.adv.append((dict(things), k))
        return a

    def _post(self, a):
        c = a._final_cause
        return {'cause': {None: 'none', 'sys.exit': 'sysexit'}.get(c, c), 'term': a._term.is_set()}

    def run(self):
        cwd = os.getcwd()
        wd  = tempfile.mkdtemp(prefix='b-agentlife_', dir='/tmp')
        try:
            os.chdir(wd)
            with mock.patch.object(m_agent0, 'time', self.clock):
                a = self._build()
                for step in self.script:
                    op = step[0]
                    if op == 'tick':
                        self.clock.now = T0 + step[1] * 60
                    elif op == 'lifetime':
                        ret = a._check_lifetime()
                        self.events.append(dict(ev='LifetimeCheck',
                                                now=int(round((self.clock.now - T0) / 60)),
                                                ret=str(ret).lower(), **self._post(a)))
                    elif op == 'cancel':
                        a._control_cb(rpc.CONTROL_PUBSUB,
                                      {'cmd': 'cancel_pilots', 'arg': {'uids': list(step[1])}})
                        self.events.append(dict(ev='CancelCmd', uids=list(step[1]), **self._post(a)))
                    elif op == 'terminate':
                        a._control_cb(rpc.CONTROL_PUBSUB, {'cmd': 'terminate', 'arg': None})
                        self.events.append(dict(ev='TerminateCmd', **self._post(a)))
                    elif op == 'stop':
                        a.stop()
                        self.events.append(dict(ev='Stop', **self._post(a)))
                    elif op == 'finalize':
                        n = len(self.adv)
                        a.finalize()
                        sig = ''
                        if os.path.exists('./killme.signal'):
                            sig = open('./killme.signal').read().strip()
                        new = self.adv[n:]
                        adv = new[-1][0].get('state', 'none') if new else 'none'
                        self.events.append(dict(ev='Finalize', signal=sig, advanced=adv or 'none',
                                                npub=len(new), uid=str(new[-1][0].get('uid')) if new else 'none',
                                                **self._post(a)))
                    elif op == 'boot':
                        self.events.append(dict(ev='Boot', exists=os.path.exists('./killme.signal'),
                                                state=run_boot(wd) if self.boot else 'skipped'))
                    else:
                        raise ValueError('unknown step %r' % (step,))
        finally:
            os.chdir(cwd)
            shutil.rmtree(wd, ignore_errors=True)
        return {'runtime': int(self.runtime or 0), 'me': ME, 'events': self.events}


# ------------------------------------------------------------------------------
def random_script(rng):
    runtime = rng.choice([0, 1, 2, 3, 10])
    script, now, lc, term, late = [], 0, True, False, 0
    for _ in range(rng.randint(0, 6)):
        x = rng.random()
        if x < 0.30:
            now += rng.choice([0, 1, 1, 2, 5])
            script.append(['tick', now])
        elif x < 0.55:
            if lc and (not term or late == 0):
                script.append(['lifetime'])
                if term:
                    late = 1
                if runtime and now >= runtime:
                    lc, term = False, True
        elif x < 0.80:
            uids = rng.sample([ME] + OTHERS, rng.randint(1, 3))
            if rng.random() < 0.5 and ME in uids:
                uids.remove(ME)
            if uids:
                script.append(['cancel', uids])
                term = term or ME in uids
        elif x < 0.92:
            script.append(['terminate'])
            term = True
        else:
            script.append(['stop'])
            term = True
    if rng.random() < 0.9:
        script.append(['finalize'])
    script.append(['boot'])
    return runtime, script
