'''
AgentLife rig: applies event sequences (lifetime checks at chosen virtual times,
cancel_pilots / terminate control messages, stop()) to a REAL Agent_0 object
through its real methods, then runs the real finalize() in a scratch working
directory and reads back what it wrote (killme.signal) and published (final
state update); optionally evaluates the tail of bootstrap_0.sh which turns the
signal file into the final state.  One event per call for AgentLifeTrace.tla.

The agent is built with Agent_0.__new__ plus the attributes the methods read;
`time` of agent_0.py is a virtual clock, publish / advance are recorders on the
instance, session and resource manager are stand-ins with close() / stop().
Callbacks of the real agent are serialised by the component's callback lock,
so one event == one call.

script events (python lists):
  ['tick', minutes]            set the virtual clock to start + minutes
  ['lifetime']                 agent._check_lifetime()
  ['cancel', [uids]]           agent._control_cb(topic, {cmd: cancel_pilots, arg: {uids}})
  ['terminate']                agent._control_cb(topic, {cmd: terminate})
  ['stop']                     agent.stop()
  ['finalize']                 agent._finalize() the way the work loop runs it
  ['finalize', opts]           the same with faults DURING termination:
       opts['env']    what finalize() finds in the pilot sandbox
           'list'  : pilot level output_staging -> staging_output.txt (LISTS)
           'tails' : agent_0.out / .err / .log (TAILS)
       opts['raise']  helpers of agent_0.py (ru.* / rpu.* functions) whose first
                      call before the publication raises, e.g. ['sh_callout']
       opts['during'] script events applied while finalize() is between its
                      first steps and the publication (after stage_output)
  ['boot']                     tail of bootstrap_0.sh in the agent's directory

finalize(): the real `stage_output` runs the real `tar` in the scratch sandbox.
`ru` / `rpu` as seen by agent_0.py are pass-through proxies for the duration of
the call: they record which helper functions finalize() calls before it
publishes (the steps), raise where the script says so, and offer the point at
which `during` events are applied.  Logger, profiler and the publication itself
(the write of killme.signal, advance) are not made to fail.
'''

import os
import re
import types
import shutil
import tempfile
import subprocess
import threading as mt

from unittest import mock

from .. import rpshim

rp  = rpshim.load()
ru  = __import__('radical.utils', fromlist=['x'])
rpc = rp.constants

import radical.pilot.agent.agent_0 as m_agent0

ME     = 'pilot.0000'
OTHERS = ['pilot.0001', 'pilot.0002']
T0     = 1000000.0

BOOTSTRAP = os.path.join(os.path.dirname(m_agent0.__file__), 'bootstrap_0.sh')


class _Clock(object):
    def __init__(self):
        self.now = T0
    def time(self):
        return self.now
    def sleep(self, dt):
        self.now += dt


# what the pilot sandbox holds when finalize() runs.  value: (is a fault of the
# step, needs the real tar).  The launcher writes staging_output.txt iff the pilot
# description has output_staging; listed entries are relative to the sandbox.
LISTS = {'none'        : (False, False),   # no output_staging configured
         'ok'          : (False, True),    # listed file and directory exist
         'tgz_exists'  : (False, False),   # tarball is there already: nothing to do
         'missing_file': (True,  True),    # a listed file was never written: tar exits 2
         'missing_dir' : (True,  True),    # a listed directory does not exist
         'empty'       : (True,  True),    # list without entries: tar refuses
         'tgz_is_dir'  : (True,  True)}    # the tarball cannot be created
TAILS = {'none'  : False,                  # no agent_0.out/.err/.log (as in the plain rig)
         'files' : False,
         'dir'   : True,                   # agent_0.out is a directory
         'binary': True}                   # agent_0.err is not UTF-8

# the helper a step of finalize() hangs on -> step name (any other helper is a step of its own)
STEP_OF = {'sh_callout': 'stage', 'get_rusage': 'rusage', 'ru_open': 'tails'}
RAISES  = {'sh_callout': OSError(24, 'Too many open files (injected)'),
           'get_rusage': OSError(22, 'getrusage failed (injected)'),
           'ru_open'   : OSError(5,  'Input/output error (injected)')}


def helpers_of_finalize():
    '''the helper functions (ru.* / rpu.*) the real finalize() of this tree calls before it
       publishes, seen in a run with output staging configured and log files present'''
    tr = AgentLifeRig(0, [['finalize', {'env': {'list': 'ok', 'tails': 'files'}}]], boot=False).run()
    return [h for e in tr['events'] if e['ev'] == 'FinBegin' for h in e['helpers']]


def prepare_sandbox(env):
    '''fill the current directory (the scratch pilot sandbox)'''
    lst, tails = env.get('list', 'none'), env.get('tails', 'none')
    if lst != 'none':
        with open('result.dat', 'w') as fh:
            fh.write('42\n')
        os.mkdir('outdir')
        with open('outdir/part.dat', 'w') as fh:
            fh.write('1\n')
        entries = {'ok': ['result.dat', 'outdir'], 'tgz_exists': ['result.dat'],
                   'missing_file': ['result.dat', 'never_written.dat'],
                   'missing_dir': ['result.dat', 'no_such_dir/'], 'empty': [],
                   'tgz_is_dir': ['result.dat']}[lst]
        with open('staging_output.txt', 'w') as fh:
            for e in entries:
                fh.write('%s\n' % e)
        if lst == 'tgz_exists':
            with open('staging_output.tgz', 'w') as fh:
                fh.write('x')
        if lst == 'tgz_is_dir':
            os.mkdir('staging_output.tgz')
    if tails == 'files':
        for ext in ('out', 'err', 'log'):
            with open('agent_0.%s' % ext, 'w') as fh:
                fh.write('line\n')
    elif tails == 'dir':
        os.mkdir('agent_0.out')
    elif tails == 'binary':
        with open('agent_0.err', 'wb') as fh:
            fh.write(b'\xff\xfe\x00\xe9 not utf-8\n')


class _ModProxy(object):
    '''stands in for a module in the namespace of agent_0.py: everything is the
       real thing, plain functions are reported to the rig when called'''

    def __init__(self, real, on_call):
        self.__dict__['_real']    = real
        self.__dict__['_on_call'] = on_call

    def __getattr__(self, name):
        val = getattr(self._real, name)
        if isinstance(val, (types.FunctionType, types.BuiltinFunctionType)):
            on_call = self._on_call

            def wrapped(*a, **k):
                on_call(name, a, k)
                return val(*a, **k)
            return wrapped
        return val


class _Stub(object):
    def __init__(self):
        self.calls = []
    def __getattr__(self, name):
        def f(*a, **k):
            self.calls.append(name)
        return f


# ------------------------------------------------------------------------------
_fragment = None


def boot_fragment():
    '''the tail of bootstrap_0.sh which maps killme.signal to the final state:
       from the last `if test -e "./killme.signal"` to the `fi` which follows
       final_state='FAILED'.  Returned only if it consists of nothing but
       test / cat / echo / assignments (safe to evaluate), else None.'''
    global _fragment
    if _fragment is not None:
        return _fragment or None
    _fragment = ''
    try:
        txt = open(BOOTSTRAP).read()
        i   = txt.rindex('if test -e "./killme.signal"')
        j   = txt.index("final_state='FAILED'", i)
        j   = txt.index('\nfi', j) + 3
        frag = txt[i:j]
        ok = re.compile(r'^\s*(#.*|if !? ?test .*|then|fi|else|echo .*|'
                        r'[A-Za-z_]+=\$\(cat \./killme\.signal\)|[A-Za-z_]+=[\w\']*)\s*$')
        if all(ok.match(line) for line in frag.splitlines() if line.strip()):
            _fragment = frag
    except Exception:
        pass
    return _fragment or None


def run_boot(cwd):
    frag = boot_fragment()
    if not frag:
        return 'skipped'
    script = 'AGENT_EXITCODE=1\nfinal_state=""\n%s\necho "FINAL_STATE=$final_state"\n' % frag
    p = subprocess.run(['/bin/bash', '-c', script], cwd=cwd, stdout=subprocess.PIPE,
                       stderr=subprocess.STDOUT, timeout=20)
    m = re.search(r'^FINAL_STATE=(.*)$', p.stdout.decode('utf-8', 'replace'), re.M)
    return m.group(1).strip() if m else 'unparsed'


# ------------------------------------------------------------------------------
class AgentLifeRig(object):

    def __init__(self, runtime, script, boot=True):
        self.runtime = runtime
        self.script  = script
        self.boot    = boot
        self.events  = []
        self.clock   = _Clock()
        self.pubs    = []
        self.adv     = []

    def _build(self):
        log = rpshim.NullLog()
        a = m_agent0.Agent_0.__new__(m_agent0.Agent_0)
        a._uid         = 'agent_0'
        a._pid         = ME
        a._pmgr        = 'pmgr.0000'
        a._owner       = ME
        a._log         = log
        a._prof        = log
        a._cfg         = ru.Config(from_dict={'runtime': self.runtime, 'pid': ME, 'uid': 'agent_0'})
        a._term        = mt.Event()
        a._session     = _Stub()
        a._rm          = _Stub()
        a._cancel_lock = mt.RLock()
        a._cancel_list = list()
        a._rpc_reqs    = dict()
        a._starttime   = self.clock.time()
        a._final_cause = None
        a.publish      = lambda channel, msg, *x, **k: self.pubs.append((channel, msg))
        a.advance      = lambda things, *x, **k: self.adv.append((dict(things), k))
        return a

    def _post(self, a):
        c = a._final_cause
        return {'cause': {None: 'none', 'sys.exit': 'sysexit'}.get(c, c), 'term': a._term.is_set()}

    # --------------------------------------------------------------------------
    def _finalize(self, a, opts):
        '''the real finalize() (through the real _finalize(), exceptions logged
           and swallowed as by the work loop) in a sandbox prepared as opts['env']
           says, helpers raising as opts['raise'] says'''
        env    = dict(opts.get('env') or {})
        plan   = [str(x) for x in (opts.get('raise') or [])]
        during = [list(x) for x in (opts.get('during') or [])]
        st     = {'published': False, 'calls': [], 'fired': [], 'during': during, 'busy': False}
        prepare_sandbox(env)

        def run_during():
            if st['during'] and not st['busy'] and not st['published']:
                todo, st['during'], st['busy'] = st['during'], [], True
                try:
                    for step in todo:
                        self._apply(a, step)
                finally:
                    st['busy'] = False

        def on_call(name, args, kw):
            if st['busy'] or st['published']:
                return
            if name == 'ru_open' and len(args) > 1 and 'w' in str(args[1]):
                # the signal file is being written: the publication has begun
                run_during()
                st['published'] = True
                return
            if name != 'sh_callout':
                run_during()
            st['calls'].append(name)
            if name in plan and name not in st['fired']:
                st['fired'].append(name)
                raise RAISES.get(name, RuntimeError('%s failed (injected)' % name))

        real_stage = a.stage_output

        def stage_then_during(*args, **kw):
            ret = real_stage(*args, **kw)
            run_during()
            return ret

        real_adv = a.advance

        def advance(things, *x, **k):
            run_during()
            st['published'] = True
            return real_adv(things, *x, **k)

        a.stage_output, a.advance = stage_then_during, advance
        n, raised = len(self.adv), 'none'
        faults = []
        if LISTS[env.get('list', 'none')][0]:
            faults.append('stage:%s' % env['list'])
        if TAILS[env.get('tails', 'none')]:
            faults.append('tails:%s' % env['tails'])
        ib = len(self.events)
        self.events.append(dict(ev='FinBegin', faults=faults, list=env.get('list', 'none'),
                                tails=env.get('tails', 'none')))
        try:
            with mock.patch.object(m_agent0, 'ru',  _ModProxy(m_agent0.ru,  on_call)), \
                 mock.patch.object(m_agent0, 'rpu', _ModProxy(m_agent0.rpu, on_call)):
                try:
                    a._finalize()
                except Exception as e:                 # component._work_loop: logged, ignored
                    raised = type(e).__name__
        finally:
            del a.stage_output
            a.advance = real_adv
        # the steps in which a helper was made to raise
        self.events[ib]['faults']  = faults + ['%s:raise' % STEP_OF.get(h, h) for h in st['fired']]
        self.events[ib]['steps']   = sorted(set(STEP_OF.get(h, h) for h in st['calls']))
        self.events[ib]['helpers'] = sorted(set(st['calls']))
        sig = ''
        if os.path.exists('./killme.signal'):
            sig = open('./killme.signal').read().strip()
        new = [x for x in self.adv[n:] if x[0].get('type') == 'pilot' and x[0].get('state') in rp.states.FINAL]
        adv = new[-1][0].get('state', 'none') if new else 'none'
        self.events.append(dict(ev='Finalize', signal=sig, advanced=adv or 'none', raised=raised,
                                npub=len(new), uid=str(new[-1][0].get('uid')) if new else 'none',
                                tgz=os.path.isfile('./staging_output.tgz'), **self._post(a)))

    # --------------------------------------------------------------------------
    def _apply(self, a, step):
        op = step[0]
        if op == 'tick':
            self.clock.now = T0 + step[1] * 60
        elif op == 'lifetime':
            ret = a._check_lifetime()
            self.events.append(dict(ev='LifetimeCheck',
                                    now=int(round((self.clock.now - T0) / 60)),
                                    ret=str(ret).lower(), **self._post(a)))
        elif op == 'cancel':
            a._control_cb(rpc.CONTROL_PUBSUB,
                          {'cmd': 'cancel_pilots', 'arg': {'uids': list(step[1])}})
            self.events.append(dict(ev='CancelCmd', uids=list(step[1]), **self._post(a)))
        elif op == 'terminate':
            a._control_cb(rpc.CONTROL_PUBSUB, {'cmd': 'terminate', 'arg': None})
            self.events.append(dict(ev='TerminateCmd', **self._post(a)))
        elif op == 'stop':
            a.stop()
            self.events.append(dict(ev='Stop', **self._post(a)))
        elif op == 'finalize':
            self._finalize(a, step[1] if len(step) > 1 else {})
        elif op == 'boot':
            self.events.append(dict(ev='Boot', exists=os.path.exists('./killme.signal'),
                                    state=run_boot(os.getcwd()) if self.boot else 'skipped'))
        else:
            raise ValueError('unknown step %r' % (step,))

    def run(self):
        cwd = os.getcwd()
        wd  = tempfile.mkdtemp(prefix='b-agentlife_', dir='/tmp')
        try:
            os.chdir(wd)
            with mock.patch.object(m_agent0, 'time', self.clock):
                a = self._build()
                for step in self.script:
                    self._apply(a, step)
        finally:
            os.chdir(cwd)
            shutil.rmtree(wd, ignore_errors=True)
        return {'runtime': int(self.runtime or 0), 'me': ME, 'events': self.events}


# ------------------------------------------------------------------------------
def random_script(rng, kinds=None):
    '''kinds: object with opts(fail_set, during) -> options of a finalize step'''
    runtime = rng.choice([0, 1, 2, 3, 10])
    script, now, lc, term, late = [], 0, True, False, 0
    n_ev    = rng.randint(0, 6)
    n_dur   = rng.randint(0, min(2, n_ev)) if kinds and rng.random() < 0.3 else 0
    fin_at  = n_ev - n_dur          # finalize begins after this many draws
    pre     = script
    for i in range(n_ev):
        if i == fin_at and n_dur:
            script = []             # what arrives while finalize runs its steps
        x = rng.random()
        if x < 0.30:
            now += rng.choice([0, 1, 1, 2, 5])
            script.append(['tick', now])
        elif x < 0.55:
            if lc and (not term or late == 0):
                script.append(['lifetime'])
                if term:
                    late = 1
                if runtime and now >= runtime:
                    lc, term = False, True
        elif x < 0.80:
            uids = rng.sample([ME] + OTHERS, rng.randint(1, 3))
            if rng.random() < 0.5 and ME in uids:
                uids.remove(ME)
            if uids:
                script.append(['cancel', uids])
                term = term or ME in uids
        elif x < 0.92:
            script.append(['terminate'])
            term = True
        else:
            script.append(['stop'])
            term = True
    during, script = (script, pre) if script is not pre else ([], pre)
    if rng.random() < 0.9 or during:
        if kinds and rng.random() < 0.6:
            fail = [k for k in (1, 2, 3) if rng.random() < 0.3]
            script.append(['finalize', kinds.opts(fail, during)])
        else:
            script.extend(during)
            script.append(['finalize'])
    script.append(['boot'])
    return runtime, script
