'''
Sizing rig (C17): binds the Sizing specification to the real code.

* `load()` runs the REAL `Session._init_cfg_from_scratch` on a `Session.__new__`
  object (loggers stubbed, user config directory pointed at an empty scratch
  directory so that only the *shipped* resource_*.json are seen).
* `resolve()` runs the REAL `Session.get_resource_config(platform, schema)` for
  a shipped pair and projects what the agent will look up: resource manager,
  launch methods (in launch order), scheduler, executor, agent config, schemas.
* `domains()` extracts the key sets of the factories' tables FROM THE CODE: the
  factory is called with a name it cannot know and the local table `impl` is
  read from the factory's frame when it returns / raises.  The agent config
  domain is the set of agent_*.json the package ships, each confirmed by the
  lookup `_prepare_pilot` uses (`ru.Config('radical.pilot', category='agent')`).
* `factories()` calls the REAL factories for the resolved names with the
  constructor of the selected class stubbed (no component is started).
* `prepare()` runs the REAL `PMGRLaunchingComponent._prepare_pilot` on a
  `__new__` object with faked sandboxes; the agent config is really written
  (mkstemp redirected into the scratch directory) and read back: that file is
  what the agent is told.
* `agent_rm()` closes the loop to the agent: the config `_prepare_pilot` wrote is
  split as the agent session does (`cfg.resource_cfg` -> rcfg) and handed to the
  platform's REAL resource manager (`_init_from_scratch`) inside a faked
  allocation of exactly the nodes the job requests (pieces of rmnodes_rig).
* `bulk()` drives the REAL `PMGRLaunchingComponent.work()` ->
  `_start_pilot_bulk()` -> `_prepare_pilot()` for a bulk of pilots naming mixed
  platforms / access schemas; staging, tar and the job submission are
  recorders, the submission of one chosen bucket can be made to raise.
'''

import os
import sys
import copy
import glob
import json
import shutil
import tempfile
import threading as mt

from unittest import mock

from .. import rpshim

rp = rpshim.load()
ru = __import__('radical.utils', fromlist=['x'])

from radical.pilot.session import Session
from radical.pilot.pmgr.launching import base as lbase
from radical.pilot.agent.resource_manager.base import ResourceManager
from radical.pilot.agent.launch_method.base    import LaunchMethod
from radical.pilot.agent.scheduler.base        import AgentSchedulingComponent
from radical.pilot.agent.executing.base        import AgentExecutingComponent
from radical.pilot.agent.resource_manager      import fork as fork_mod

from . import rmnodes_rig as RM

rps = rp.states

BOGUS = '__no_such_name__'


# ------------------------------------------------------------------------------
def _capture(fn, *args):
    '''call the factory `fn`; return (result or exception, its local `impl` table)'''
    code = getattr(fn, '__func__', fn).__code__
    got  = {}

    def prof(frame, event, arg):
        if event == 'return' and frame.f_code is code:
            impl = frame.f_locals.get('impl')
            if isinstance(impl, dict):
                got['impl'] = dict(impl)

    sys.setprofile(prof)
    try:
        try:
            res = fn(*args)
        except Exception as e:
            res = e
    finally:
        sys.setprofile(None)
    if 'impl' not in got:
        raise RuntimeError('factory %s has no table `impl`' % fn)
    return res, got['impl']


class _Prof(rpshim.NullLog):
    '''profiler stand-in'''
    enabled = False


class SizingRig(object):

    def __init__(self):
        self.wd   = tempfile.mkdtemp(prefix='b-rmnodes_sz_', dir=os.environ.get('RP_VERIF_TMP', '/tmp'))
        self.env0 = {k: os.environ.get(k) for k in ('RADICAL_CONFIG_USER_DIR', 'RADICAL_SMT', 'PATH')}
        self.log  = rpshim.NullLog()
        # _prepare_pilot looks up radical-utils-env.sh on $PATH
        os.environ['PATH'] = os.path.dirname(sys.executable) + os.pathsep + os.environ.get('PATH', '')
        os.environ.pop('RADICAL_SMT', None)
        self.session   = None
        self.component = None
        self.tables    = None
        self.cfgfile   = os.path.join(self.wd, 'agent_0.cfg')

    def close(self):
        for k, v in self.env0.items():
            if v is None:
                os.environ.pop(k, None)
            else:
                os.environ[k] = v
        shutil.rmtree(self.wd, ignore_errors=True)

    # --------------------------------------------------------------------------
    def load(self):
        '''real Session._init_cfg_from_scratch -> the shipped resource configs'''
        os.environ['RADICAL_CONFIG_USER_DIR'] = self.wd       # no user overlays
        s = Session.__new__(Session)
        s._cfg, s._uid, s._role = None, 'rp.session.verif.0000', 'primary'
        s._get_profiler = s._get_reporter = s._get_logger = lambda *a, **k: self.log
        dc   = ru.DefaultConfig()
        keep = (dc.log_dir, dc.report_dir, dc.profile_dir)
        old  = os.getcwd()
        os.chdir(self.wd)
        try:
            s._init_cfg_from_scratch()
        finally:
            os.chdir(old)
            dc.log_dir, dc.report_dir, dc.profile_dir = keep
        s._cfg.proxy_url = 'tcp://localhost:10001/'
        wd = self.wd
        sb = 'file://localhost/scratch/radical.pilot.sandbox'
        s._get_endpoint_fs      = lambda pilot: ru.Url('file://localhost/')
        s._get_resource_sandbox = lambda pilot: ru.Url(sb)
        s._get_session_sandbox  = lambda pilot: ru.Url('%s/%s' % (sb, s._uid))
        s._get_pilot_sandbox    = lambda pilot: ru.Url('%s/%s/%s' % (sb, s._uid, pilot['uid']))
        s._get_client_sandbox   = lambda: wd
        self.session = s

        c = lbase.PMGRLaunchingComponent.__new__(lbase.PMGRLaunchingComponent)
        c._uid, c._pmgr = 'pmgr.launching.0000', 'pmgr.0000'
        c._log  = rpshim.NullLog()
        c._log.level, c._log.debug_level = 'OFF', 0
        c._prof = _Prof()
        c._session, c._sandboxes = s, dict()
        c._root_dir   = os.path.dirname(rp.__file__)
        c._rp_version = rp.version
        self.component = c
        return s

    def pairs(self):
        '''(platform, schema) for every shipped platform: its default ('') and each declared schema'''
        out = []
        for site in sorted(self.session._rcfgs):
            for res in sorted(self.session._rcfgs[site]):
                r = self.session._rcfgs[site][res]
                schemas = r.get('schemas') or {}
                for sch in [''] + sorted(schemas):
                    out.append(('%s.%s' % (site, res), sch))
        return out

    # --------------------------------------------------------------------------
    def resolve(self, name, schema):
        '''real get_resource_config; returns (Config event, rcfg or None)'''
        site, res = name.split('.', 1)
        raw = self.session._rcfgs[site][res]
        ev  = {'ev': 'Config', 'ok': False, 'rm': 'none', 'lms': [], 'lmkeys': [], 'sched': 'none',
               'spawner': 'none', 'agentcfg': 'none', 'defschema': str(raw.get('default_schema') or ''),
               'schemas': sorted(str(k) for k in (raw.get('schemas') or {})),
               'jm': False, 'fs': False, 'err': 'none'}
        try:
            rcfg = self.session.get_resource_config(name, schema or None)
            rcfg.verify()                         # as _prepare_pilot does first
        except Exception as e:
            ev['err'] = ('%s: %s' % (type(e).__name__, e))[:300]
            return ev, None
        lms   = rcfg.launch_methods or {}
        order = lms.get('order') or list(lms)
        ac    = rcfg.agent_config
        ev.update({'ok': True, 'rm': str(rcfg.resource_manager), 'lms': [str(x) for x in order],
                   'lmkeys': sorted(str(k) for k in lms), 'sched': str(rcfg.agent_scheduler),
                   'spawner': str(rcfg.agent_spawner),
                   'agentcfg': ac if isinstance(ac, str) else '<inline>',
                   'jm': bool(rcfg.job_manager_endpoint), 'fs': bool(rcfg.filesystem_endpoint)})
        return ev, rcfg

    # --------------------------------------------------------------------------
    def domains(self):
        '''key sets of the factories' tables, read from the running code'''
        if self.tables is None:
            sess = mock.Mock()
            sess.rcfg = ru.Config(from_dict={'agent_scheduler': BOGUS, 'agent_spawner': BOGUS,
                                             'launch_methods': {}})
            t = dict()
            t['rm']    = _capture(ResourceManager.get_manager, BOGUS)[1]
            t['lm']    = _capture(LaunchMethod.create, BOGUS, None, None, None, None)[1]
            t['sched'] = _capture(AgentSchedulingComponent.create, None, sess)[1]
            t['exec']  = _capture(AgentExecutingComponent.create, None, sess)[1]
            # agent configs the package ships, confirmed by the lookup _prepare_pilot uses
            names = []
            for f in sorted(glob.glob(os.path.join(os.path.dirname(rp.__file__), 'configs', 'agent_*.json'))):
                n = os.path.basename(f)[len('agent_'):-len('.json')]
                if ru.Config('radical.pilot', category='agent', name=n):
                    names.append(n)
            t['agent'] = {n: None for n in names}
            self.tables = t
        return {k: sorted(v) for k, v in self.tables.items()}

    # --------------------------------------------------------------------------
    def _made(self, table, factory, *args):
        '''class name the real factory instantiates (constructor stubbed), or "unknown"'''
        stub = lambda self, *a, **k: None
        try:
            classes = set(c for c in table.values() if isinstance(c, type))
            stack   = [mock.patch.object(c, '__init__', stub) for c in classes]
            for p in stack:
                p.start()
            try:
                obj = factory(*args)
            finally:
                for p in stack:
                    p.stop()
            return type(obj).__name__ if obj is not None else 'unknown'
        except (ValueError, RuntimeError, KeyError):
            return 'unknown'

    def factories(self, ev, rcfg):
        '''real factories on the resolved names -> Factories event'''
        self.domains()
        t    = self.tables
        sess = mock.Mock()
        sess.rcfg = rcfg
        out = {'ev': 'Factories'}
        out['rm']    = self._made(t['rm'], ResourceManager.create, ev['rm'], None, rcfg, self.log, self.log)
        out['lms']   = [self._made(t['lm'], LaunchMethod.create, lm, None, None, self.log, self.log)
                        for lm in ev['lms']]
        out['sched'] = self._made(t['sched'], AgentSchedulingComponent.create, None, sess)
        out['exec']  = self._made(t['exec'], AgentExecutingComponent.create, None, sess)
        ac = rcfg.agent_config
        if isinstance(ac, str):
            out['agent'] = bool(ru.Config('radical.pilot', category='agent', name=ac))
        else:
            out['agent'] = isinstance(ac, dict) and bool(ac)
        return out

    # --------------------------------------------------------------------------
    @staticmethod
    def platform(name, rcfg):
        sa = rcfg.system_architecture or {}
        return {'name': name, 'cpn': int(rcfg.cores_per_node or 0), 'gpn': int(rcfg.gpus_per_node or 0),
                'smt': int(sa.get('smt', 1)), 'nbc': len(sa.get('blocked_cores', [])),
                'nbg': len(sa.get('blocked_gpus', [])),
                'bc': [int(x) for x in sa.get('blocked_cores', [])],
                'bg': [int(x) for x in sa.get('blocked_gpus', [])]}

    def _mkstemp(self, leaked):
        cfgfile, real_mkstemp = self.cfgfile, tempfile.mkstemp

        def mkstemp(*a, **k):
            # the agent config of _prepare_pilot goes to the scratch directory; any other
            # caller (ru.write_json never closes its descriptor) gets the real thing, and
            # the descriptors are closed after the call
            if k.get('prefix') == 'rp.agent_cfg.':
                return os.open(cfgfile, os.O_CREAT | os.O_WRONLY | os.O_TRUNC), cfgfile
            fd, name = real_mkstemp(*a, **k)
            leaked.append(fd)
            return fd, name
        return mkstemp

    def _figures(self, pilot):
        '''job description figures and what the agent reads as agent_0.cfg'''
        jd = pilot['jd_dict']
        with open(self.cfgfile) as fh:
            told = json.load(fh)
        return ({'nodes': int(jd.node_count), 'cpus': int(jd.total_cpu_count),
                 'gpus': int(jd.total_gpu_count), 'pph': int(jd.processes_per_host or 0),
                 'smt': int(jd.environment.get('RADICAL_SMT', 0))},
                {'nodes': int(told['nodes']), 'backup': int(told['backup_nodes']),
                 'cores': int(told['cores']), 'gpus': int(told['gpus']),
                 'cpn': int(told['cores_per_node'] or 0), 'gpn': int(told['gpus_per_node'] or 0)},
                told)

    def prepare(self, name, rcfg, size, mutate=None, with_rm=False):
        '''real _prepare_pilot for one pilot size -> [Prepared event (, AgentRM event)]'''
        zero = {'nodes': 0, 'cpus': 0, 'gpus': 0, 'pph': 0, 'smt': 0}
        ev   = {'ev': 'Prepared', 'size': dict(size), 'ok': False, 'jd': zero,
                'agent': {'nodes': 0, 'backup': 0, 'cores': 0, 'gpus': 0, 'cpn': 0, 'gpn': 0}, 'err': 'none'}
        descr = {'resource': name, 'runtime': 10, 'project': 'verif', 'queue': 'q',
                 'access_schema': None}
        for k in ('nodes', 'cores', 'gpus'):
            if size[k]:
                descr[k] = size[k]
        if size['backup']:
            descr['backup_nodes'] = size['backup']
        leaked, told = [], None
        if size['smt']:
            os.environ['RADICAL_SMT'] = str(size['smt'])
        else:
            os.environ.pop('RADICAL_SMT', None)
        try:
            pd = rp.PilotDescription(descr)
            pd.verify()
            pilot = {'uid': 'pilot.0000', 'description': pd.as_dict()}
            comp  = self.component
            if mutate:
                mutate(self, pilot)
            with mock.patch.object(lbase.tempfile, 'mkstemp', self._mkstemp(leaked)):
                comp._prepare_pilot(name, rcfg, pilot, {}, 'verif.tgz')
            ev['jd'], ev['agent'], told = self._figures(pilot)
            ev['ok'] = True
        except Exception as e:
            ev['err'] = ('%s: %s' % (type(e).__name__, e))[:200]
        finally:
            os.environ.pop('RADICAL_SMT', None)
            for fd in leaked:
                try:
                    os.close(fd)
                except OSError:
                    pass
        if with_rm and told is not None:
            arm = self.agent_rm(told, ev['jd'])
            if arm is not None:
                return [ev, arm]
        return [ev]

    # --------------------------------------------------------------------------
    def agent_rm(self, told, jd):
        '''the platform's real resource manager on the agent config `told`, inside
           a faked allocation of jd['nodes'] nodes -> AgentRM event (None: no such RM here)'''
        name = told['resource_manager']
        cls  = ResourceManager.get_manager(name)
        rcfg = told.get('resource_cfg') or {}
        if cls is None or name not in ('FORK', 'SLURM', 'LSF', 'PBSPRO', 'TORQUE', 'COBALT'):
            return None
        if name == 'FORK' and not rcfg.get('fake_resources') and jd['nodes'] > 1:
            return None                 # a real localhost is one node: the RM refuses on purpose
        n     = jd['nodes']
        nag   = len([a for a in (told.get('agents') or {}).values() if a.get('target') == 'node'])
        if told['nodes'] - nag < 1:
            return None                 # sub-agent nodes take all requested nodes: refused on purpose (C18)
        cpn   = int(told['cores_per_node'])
        smt   = jd['smt'] or 1
        names = ['node%03d' % (i + 1) for i in range(n)]
        ev    = {'ev': 'AgentRM', 'ok': False, 'err': 'none', 'nnodes': 0, 'req': 0, 'cpn': 0, 'gpn': 0,
                 'ncores': 0, 'ngpus': 0, 'downc': [], 'downg': [], 'uniform': False}
        old   = os.getcwd()
        env0  = {k: os.environ.get(k) for k in RM.ENV_VARS}
        qstat = ('', 'qstat: command not found', 127)
        try:
            os.chdir(self.wd)           # Slurm's rm_info.json, ./services
            for k in RM.ENV_VARS:
                if k != 'HOME':
                    os.environ.pop(k, None)
            os.environ['RADICAL_SMT'] = str(smt)              # the job's environment carries it
            nf = os.path.join(self.wd, 'nodefile')
            if name == 'SLURM':
                os.environ['SLURM_NODELIST'] = 'node[%s]' % RM.ranges(list(range(1, n + 1)), 3)
            elif name == 'LSF':
                with open(nf, 'w') as fh:                     # one line per physical core + batch node
                    fh.write('batch1\n' + ''.join((h + '\n') * (cpn // smt) for h in names))
                os.environ['LSB_DJOB_HOSTFILE'] = nf
            elif name in ('PBSPRO', 'TORQUE', 'COBALT'):
                os.environ['PBS_JOBID'] = '4711.pbs'
                if name == 'PBSPRO' and n % 2:
                    qstat = ('Job Id: 4711.pbs\n    exec_vnode = %s\n    Hold_Types = n\n'
                             % '+'.join('(%s:ncpus=%d)' % (h, cpn) for h in names), '', 0)
                else:
                    with open(nf, 'w') as fh:
                        fh.write(''.join((h + '\n') * (1 if name != 'TORQUE' else cpn) for h in names))
                    os.environ['PBS_NODEFILE' if name != 'COBALT' else 'COBALT_NODEFILE'] = nf
            for k, v in RM.RMInfo._defaults.items():           # see rmnodes_rig.make_rm
                if isinstance(v, list):
                    RM.RMInfo._defaults[k] = list()
                elif isinstance(v, dict):
                    RM.RMInfo._defaults[k] = dict()
            rm = cls.__new__(cls)
            rm.name, rm._log, rm._prof = cls.__name__, self.log, self.log
            # as Session._init_cfg_from_dict: rcfg = cfg.resource_cfg, removed from cfg
            acfg = dict(told)
            acfg.pop('resource_cfg', None)
            rm._cfg  = ru.Config(from_dict=acfg)
            rm._rcfg = ru.Config(from_dict=copy.deepcopy(rcfg))
            with mock.patch.object(RM.rmb, 'Process', RM.FakeProcess), \
                 mock.patch.object(ru, 'sh_callout', lambda *a, **k: qstat), \
                 mock.patch.object(fork_mod.multiprocessing, 'cpu_count', lambda: 1 << 20):
                info = rm._init_from_scratch()
                info.verify()
            nodes = info.node_list
            first = nodes[0]
            ev.update({
                'ok': True,
                'nnodes': len(nodes) + len(info.agent_node_list) + len(info.service_node_list),
                'req': int(info.requested_nodes),
                'cpn': int(info.cores_per_node), 'gpn': int(info.gpus_per_node),
                'ncores': len(first['cores']), 'ngpus': len(first['gpus']),
                'downc': [i for i, v in enumerate(first['cores']) if RM.occ(v) == 'D'],
                'downg': [i for i, v in enumerate(first['gpus'])  if RM.occ(v) == 'D'],
                'uniform': all(x['cores'] == first['cores'] and x['gpus'] == first['gpus'] for x in nodes)})
        except Exception as e:
            ev['err'] = ('%s: %s' % (type(e).__name__, e))[:200]
        finally:
            os.chdir(old)
            for k, v in env0.items():
                if v is None:
                    os.environ.pop(k, None)
                else:
                    os.environ[k] = v
            os.environ.pop('RADICAL_SMT', None)
        return ev

    # --------------------------------------------------------------------------
    def expected_endpoints(self, name, schema):
        '''what the shipped configuration lists for the schema a pilot names'''
        site, res = name.split('.', 1)
        raw  = self.session._rcfgs[site][res]
        used = schema or raw['default_schema']
        sch  = raw['schemas'][used]
        return str(sch['job_manager_endpoint']), str(sch['filesystem_endpoint'])

    def bulk(self, spec, fail):
        '''spec: list of (platform, schema) - one pilot each, ONE bulk for the real
           work(); fail: 1-based index (dict order) of the (resource, schema) bucket
           whose job submission raises, 0 = none.  Returns the trace dict.'''
        rig, events = self, []
        order = []
        for c in spec:
            if tuple(c) not in order:
                order.append(tuple(c))
        # python dict order of buckets[resource][schema]
        ress  = []
        for r, _ in order:
            if r not in ress:
                ress.append(r)
        bks   = [c for r in ress for c in order if c[0] == r]
        pilots, pinfo = [], []
        for i, (name, schema) in enumerate(spec):
            site, res = name.split('.', 1)
            known = bool(self.session._rcfgs[site][res].get('cores_per_node'))
            size  = {'nodes': i + 1} if known else {'cores': 8 * (i + 1)}
            descr = {'resource': name, 'access_schema': schema or None, 'runtime': 10,
                     'project': 'verif', 'queue': 'q'}
            descr.update(size)
            pd  = rp.PilotDescription(descr)
            pd.verify()
            pid = 'pilot.%04d' % i
            pilots.append({'uid': pid, 'type': 'pilot', 'state': rps.PMGR_LAUNCHING_PENDING,
                           'description': pd.as_dict()})
            jm, fs = self.expected_endpoints(name, schema)
            pinfo.append({'pid': pid, 'plat': name, 'schema': schema, 'jm': jm, 'fs': fs,
                          'bucket': bks.index((name, schema)) + 1,
                          'size': {'nodes': size.get('nodes', 0), 'cores': size.get('cores', 0), 'gpus': 0,
                                   'backup': 0, 'smt': 0}})
        failing = set(p['pid'] for p in pinfo if p['bucket'] == fail)
        byid    = {p['pid']: p for p in pinfo}

        class Launcher(object):
            '''stands for the PSI/J / SAGA launcher'''
            def can_launch(self, rcfg, pilot):
                return True

            def launch_pilots(self, rcfg, ps):
                pids = [p['uid'] for p in ps]
                bad  = bool(failing & set(pids))
                events.append({'ev': 'Submit', 'pids': pids, 'ok': not bad})
                if bad:
                    raise RuntimeError('job submission refused (injected)')

        c = lbase.PMGRLaunchingComponent.__new__(lbase.PMGRLaunchingComponent)
        c.__dict__.update(self.component.__dict__)
        c._cfg       = ru.Config(cfg={'base': self.wd})
        c._pilots, c._lock, c._cancelled, c._sandboxes = dict(), mt.RLock(), list(), dict()
        c._stage_in  = lambda pilot, sds: None
        c._launchers = {'RECORD': Launcher()}

        def advance(things, state=None, publish=True, push=False, **kw):
            events.append({'ev': 'Adv', 'pids': [t['uid'] for t in ru.as_list(things)], 'state': str(state)})
        c.advance = advance

        real_bulk, real_prep = c._start_pilot_bulk, c._prepare_pilot

        def start_pilot_bulk(resource, schema, ps):
            events.append({'ev': 'Bulk', 'res': str(resource), 'schema': str(schema or ''),
                           'pids': [p['uid'] for p in ps]})
            return real_bulk(resource, schema, ps)

        def prepare_pilot(resource, rcfg, pilot, expand, tar_name):
            real_prep(resource, rcfg, pilot, expand, tar_name)
            jd, agent, told = rig._figures(pilot)
            info  = byid[pilot['uid']]
            plat  = SizingRig.platform(str(resource), rcfg)
            events.append({'ev': 'BPrepared', 'pid': pilot['uid'], 'res': str(resource),
                           'jm': str(rcfg['job_manager_endpoint']), 'fs': str(rcfg['filesystem_endpoint']),
                           'ajm': str(told['resource_cfg']['job_manager_endpoint']),
                           'sized': plat['cpn'] > 0, 'plat': plat, 'size': info['size'],
                           'jd': jd, 'agent': agent})

        c._start_pilot_bulk = start_pilot_bulk
        c._prepare_pilot    = prepare_pilot

        leaked, keep = [], tempfile.tempdir
        tempfile.tempdir = self.wd                     # rp_agent_tmp* directories of the bulk
        try:
            with mock.patch.object(lbase.tempfile, 'mkstemp', self._mkstemp(leaked)), \
                 mock.patch.object(ru, 'sh_callout', lambda *a, **k: ('', '', 0)):
                try:
                    c.work(pilots)
                except Exception as e:
                    events.append({'ev': 'Adv', 'pids': [], 'state': 'RAISED:%s' % type(e).__name__})
        finally:
            tempfile.tempdir = keep
            for fd in leaked:
                try:
                    os.close(fd)
                except OSError:
                    pass
            for d in glob.glob(os.path.join(self.wd, 'rp_agent_tmp*')):
                shutil.rmtree(d, ignore_errors=True)
        for p in pinfo:
            del p['size']
        return {'kind': 'bulk', 'pilots': pinfo, 'fail': fail, 'events': events}
