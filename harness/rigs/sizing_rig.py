'''
Sizing rig (C17): binds the Sizing specification to the real code.

* `load()` runs the REAL `Session._init_cfg_from_scratch` on a `Session.__new__`
  object (loggers stubbed, user config directory pointed at an empty scratch
  directory so that only the *shipped* resource_*.json are seen).
* `resolve()` runs the REAL `Session.get_resource_config(platform, schema)` for
  a shipped pair and projects what the agent will look up: resource manager,
  launch methods (in launch order), scheduler, executor, agent config, schemas.
* `domains()` extracts the key sets of the factories' tables FROM THE CODE: the
  factory is called with a name it cannot know and the local table `impl` is
  read from the factory's frame when it returns / raises.  The agent config
  domain is the set of agent_*.json the package ships, each confirmed by the
  lookup `_prepare_pilot` uses (`ru.Config('radical.pilot', category='agent')`).
* `factories()` calls the REAL factories for the resolved names with the
  constructor of the selected class stubbed (no component is started).
* `prepare()` runs the REAL `PMGRLaunchingComponent._prepare_pilot` on a
  `__new__` object with faked sandboxes; the agent config is really written
  (mkstemp redirected into the scratch directory) and read back: that file is
  what the agent is told.
* `agent_rm()` closes the loop to the agent: the config `_prepare_pilot` wrote is
  split as the agent session does (`cfg.resource_cfg` -> rcfg) and handed to the
  platform's REAL resource manager (`_init_from_scratch`) inside a faked
  allocation of exactly the nodes the job requests (pieces of rmnodes_rig).
* `bulk()` drives the REAL `PMGRLaunchingComponent.work()` ->
  `_start_pilot_bulk()` -> `_prepare_pilot()` -> launcher selection ->
  `launch_pilots()` of the REAL `PilotLauncherPSIJ` / `PilotLauncherSAGA` for a
  bulk of pilots naming mixed platforms / access schemas and of mixed sizes.
  The launchers are the ones the REAL `PMGRLaunchingComponent.__init__`
  constructs when the optional modules of the case are "installed"; `psij` and
  `radical.saga` are recording stand-ins (`fake_psij`, `fake_saga`: the classes
  and signatures the launchers use; the batch system end - `JobExecutor.submit`,
  `job.Container.run` - records what reaches it and can be made to refuse the
  jobs of one chosen bucket).  Staging and tar are recorders.
'''

import os
import sys
import copy
import enum
import glob
import json
import shlex
import types
import random
import shutil
import logging
import datetime
import tempfile
import functools
import threading as mt

from unittest import mock

from .. import rpshim

rp = rpshim.load()
ru = __import__('radical.utils', fromlist=['x'])

from radical.pilot.session import Session
from radical.pilot.pmgr.launching import base as lbase
from radical.pilot.agent.resource_manager.base import ResourceManager
from radical.pilot.agent.launch_method.base    import LaunchMethod
from radical.pilot.agent.scheduler.base        import AgentSchedulingComponent
from radical.pilot.agent.executing.base        import AgentExecutingComponent
from radical.pilot.agent.resource_manager      import fork as fork_mod

# The launcher modules bind their optional modules (psij, radical.saga) when they are
# imported; the rig replaces these bindings by its stand-ins whenever a launcher runs.
# psi_j.py switches the root logger to DEBUG on import (logging.basicConfig) and a real
# psij logs while loading: keep it from loading, undo the logger setup.
_root = logging.getLogger()
_keep = (list(_root.handlers), _root.level, sys.modules.get('psij'))
if _keep[2] is None:
    sys.modules['psij'] = types.ModuleType('psij')
try:
    from radical.pilot.pmgr.launching import psi_j as psi_mod
    from radical.pilot.pmgr.launching import saga  as saga_mod
finally:
    if _keep[2] is None:
        sys.modules.pop('psij', None)
    _root.handlers[:] = _keep[0]
    _root.setLevel(_keep[1])

from . import rmnodes_rig as RM

rps = rp.states

BOGUS = '__no_such_name__'


# ------------------------------------------------------------------------------
def _capture(fn, *args):
    '''call the factory `fn`; return (result or exception, its local `impl` table)'''
    code = getattr(fn, '__func__', fn).__code__
    got  = {}

    def prof(frame, event, arg):
        if event == 'return' and frame.f_code is code:
            impl = frame.f_locals.get('impl')
            if isinstance(impl, dict):
                got['impl'] = dict(impl)

    sys.setprofile(prof)
    try:
        try:
            res = fn(*args)
        except Exception as e:
            res = e
    finally:
        sys.setprofile(None)
    if 'impl' not in got:
        raise RuntimeError('factory %s has no table `impl`' % fn)
    return res, got['impl']



# ------------------------------------------------------------------------------
# recording stand-ins for the optional modules of the pilot launchers
#
PSIJ_EXECUTORS = ('cobalt', 'flux', 'local', 'lsf', 'pbs', 'pbs_classic', 'rp', 'slurm')
LAUNCHER_ORDER = ('PSI_J', 'SAGA')          # the design: PSI/J is asked before SAGA


class Hooks(object):
    """the batch system end of both stand-ins; set per bulk by the rig"""
    psij_submit = None           # f(executor, job): record; raise = submission refused
    saga_run    = None           # f(container)    : record; set job states


def fake_psij(hooks):
    """module object offering what psij (0.9) offers to a client which describes
       and submits jobs: JobState, JobStatus, JobAttributes, ResourceSpecV1, JobSpec,
       Job, JobExecutor (same constructor signatures and defaults)"""
    m = types.ModuleType('psij')

    class JobState(enum.Enum):
        NEW, QUEUED, ACTIVE, COMPLETED, FAILED, CANCELED = range(6)

    class JobStatus(object):
        def __init__(self, state, time=None, message=None, exit_code=None, metadata=None):
            self.state, self.time, self.message = state, time, message
            self.exit_code, self.metadata = exit_code, metadata

    class SubmitException(Exception):
        pass

    class InvalidJobException(Exception):
        pass

    class JobAttributes(object):
        def __init__(self, duration=datetime.timedelta(minutes=10), queue_name=None, account=None,
                     reservation_id=None, custom_attributes=None, project_name=None):
            self.duration, self.queue_name, self.reservation_id = duration, queue_name, reservation_id
            self.account = account if account is not None else project_name
            self._custom_attributes = custom_attributes

        project_name = property(lambda self: self.account,
                                lambda self, v: setattr(self, 'account', v))

        @property
        def custom_attributes(self):
            return self._custom_attributes

        def set_custom_attribute(self, name, value):
            if self._custom_attributes is None:
                self._custom_attributes = dict()
            self._custom_attributes[name] = value

        def get_custom_attribute(self, name):
            return (self._custom_attributes or {}).get(name)

    class ResourceSpec(object):
        pass

    class ResourceSpecV1(ResourceSpec):
        def __init__(self, node_count=None, process_count=None, processes_per_node=None,
                     cpu_cores_per_process=None, gpu_cores_per_process=None,
                     exclusive_node_use=False, memory=None):
            self.node_count, self.process_count = node_count, process_count
            self.processes_per_node             = processes_per_node
            self.cpu_cores_per_process          = cpu_cores_per_process
            self.gpu_cores_per_process          = gpu_cores_per_process
            self.exclusive_node_use, self.memory = exclusive_node_use, memory

    class JobSpec(object):
        def __init__(self, executable=None, arguments=None, directory=None, name=None,
                     inherit_environment=True, environment=None, stdin_path=None, stdout_path=None,
                     stderr_path=None, resources=None, attributes=None, pre_launch=None,
                     post_launch=None, launcher=None):
            self.executable, self.arguments, self.directory, self.name = executable, arguments, directory, name
            self.inherit_environment, self.environment = inherit_environment, environment
            self.stdin_path, self.stdout_path, self.stderr_path = stdin_path, stdout_path, stderr_path
            self.resources   = resources
            self.attributes  = attributes if attributes is not None else JobAttributes()
            self.pre_launch, self.post_launch, self.launcher = pre_launch, post_launch, launcher

    class Job(object):
        _count = 0

        def __init__(self, spec=None):
            Job._count   += 1
            self.id       = 'psij.job.%06d' % Job._count
            self.spec     = spec
            self.status   = JobStatus(JobState.NEW)
            self.executor = None

        def cancel(self):
            if self.executor:
                self.executor.cancel(self)

    class JobExecutor(object):
        def __init__(self, name):
            self.name, self._cb, self.submitted, self.cancelled = name, None, [], []

        @staticmethod
        def get_executor_names():
            return set(PSIJ_EXECUTORS)

        @staticmethod
        def get_instance(name, version_constraint=None, url=None, config=None):
            if name not in PSIJ_EXECUTORS:
                raise ValueError('No such executor "%s". Available executors: %s'
                                 % (name, ', '.join(PSIJ_EXECUTORS)))
            return JobExecutor(name)

        def set_job_status_callback(self, cb):
            self._cb = cb

        def submit(self, job):
            if job.spec is None or not job.spec.executable:
                raise InvalidJobException('job has no specification / executable')
            if hooks.psij_submit:
                hooks.psij_submit(self, job)           # may raise SubmitException
            job.executor = self
            job.status   = JobStatus(JobState.QUEUED)
            self.submitted.append(job)

        def cancel(self, job):
            self.cancelled.append(job)

    for cls in (JobState, JobStatus, SubmitException, InvalidJobException, JobAttributes, ResourceSpec,
                ResourceSpecV1, JobSpec, Job, JobExecutor):
        setattr(m, cls.__name__, cls)
    return m


def fake_saga(hooks):
    """module object offering what radical.saga offers to a client which describes
       and submits jobs: Session, job.Service, job.Description (attribute interface),
       job.Container, job objects with state and callbacks, the state constants"""
    rs  = types.ModuleType('radical.saga')
    job = types.ModuleType('radical.saga.job')
    rs.job   = job
    rs.STATE = job.STATE = 'State'
    for k, v in dict(UNKNOWN='Unknown', NEW='New', PENDING='Pending', RUNNING='Running', DONE='Done',
                     CANCELED='Canceled', FAILED='Failed', SUSPENDED='Suspended').items():
        setattr(rs, k, v)
        setattr(job, k, v)

    class Session(object):
        def __init__(self, default=True, uid=None):
            self.contexts = []

    class Description(object):
        def __init__(self):
            self.__dict__['_d'] = dict()

        def set_attribute(self, key, val):
            self._d[key] = val

        def get_attribute(self, key):
            return self._d.get(key)

        def attribute_exists(self, key):
            return key in self._d

        def as_dict(self):
            return dict(self._d)

        __setitem__ = set_attribute
        __getitem__ = get_attribute
        __setattr__ = set_attribute

        def __getattr__(self, key):
            if key.startswith('__'):
                raise AttributeError(key)
            return self.__dict__['_d'].get(key)

    class Job(object):
        _count = 0

        def __init__(self, service, descr):
            Job._count += 1
            self.id, self.name   = None, descr.get('name')
            self.service         = service
            self.description     = descr            # copied at create_job, as radical.saga does
            self.state           = job.NEW
            self.stdout, self.stderr, self.exit_code = '', '', None
            self.callbacks       = []
            self._serial         = Job._count

        def add_callback(self, metric, cb):
            self.callbacks.append((metric, cb))

        def get_state(self):
            return self.state

        def run(self):
            c = Container()
            c.add(self)
            c.run()

        def cancel(self, timeout=None):
            self.state = job.CANCELED

        def wait(self, timeout=None):
            return True

    class Service(object):
        def __init__(self, rm=None, session=None):
            self.url, self.session, self.closed = str(rm), session, False

        def create_job(self, jd):
            return Job(self, copy.deepcopy(jd.as_dict()))

        def close(self):
            self.closed = True

    class Container(object):
        def __init__(self):
            self.tasks = []

        def add(self, task):
            self.tasks.append(task)

        def get_tasks(self):
            return list(self.tasks)

        def run(self):
            for t in self.tasks:
                t.id, t.state = '[%s]-[%d]' % (t.service.url, t._serial), job.PENDING
            if hooks.saga_run:
                hooks.saga_run(self)                   # may set states to FAILED

        def cancel(self, timeout=None):
            for t in self.tasks:
                t.cancel()

        def wait(self, mode=None, timeout=None):
            return list(self.tasks)

    rs.Session = Session
    job.Description, job.Service, job.Container, job.Job = Description, Service, Container, Job
    return rs


def _unquoted(args):
    """the arguments as the shell of the batch job sees them"""
    out = []
    for a in args or []:
        try:
            out += shlex.split(str(a)) or ['']
        except ValueError:
            out.append(str(a))
    return out


def _after(args, flag):
    args = list(args)
    return str(args[args.index(flag) + 1]) if flag in args[:-1] else 'none'


def agent_proj(told):
    """what an agent config tells the agent about its allocation"""
    return {'nodes': int(told['nodes']), 'backup': int(told['backup_nodes']),
            'cores': int(told['cores']), 'gpus': int(told['gpus']),
            'cpn': int(told['cores_per_node'] or 0), 'gpn': int(told['gpus_per_node'] or 0)}


class _Prof(rpshim.NullLog):
    '''profiler stand-in'''
    enabled = False


class SizingRig(object):

    def __init__(self):
        self.wd   = tempfile.mkdtemp(prefix='b-rmnodes_sz_', dir=os.environ.get('RP_VERIF_TMP', '/tmp'))
        self.env0 = {k: os.environ.get(k) for k in ('RADICAL_CONFIG_USER_DIR', 'RADICAL_SMT', 'PATH')}
        self.log  = rpshim.NullLog()
        # _prepare_pilot looks up radical-utils-env.sh on $PATH
        os.environ['PATH'] = os.path.dirname(sys.executable) + os.pathsep + os.environ.get('PATH', '')
        os.environ.pop('RADICAL_SMT', None)
        self.session   = None
        self.component = None
        self.tables    = None
        self.cfgfile   = os.path.join(self.wd, 'agent_0.cfg')
        self.hooks     = Hooks()
        self.psij      = fake_psij(self.hooks)
        self.saga      = fake_saga(self.hooks)
        self._comps    = dict()          # installed launchers -> component built by the real __init__
        self._plats    = dict()

    def close(self):
        for k, v in self.env0.items():
            if v is None:
                os.environ.pop(k, None)
            else:
                os.environ[k] = v
        shutil.rmtree(self.wd, ignore_errors=True)

    # --------------------------------------------------------------------------
    def load(self):
        '''real Session._init_cfg_from_scratch -> the shipped resource configs'''
        os.environ['RADICAL_CONFIG_USER_DIR'] = self.wd       # no user overlays
        s = Session.__new__(Session)
        s._cfg, s._uid, s._role = None, 'rp.session.verif.0000', 'primary'
        s._get_profiler = s._get_reporter = s._get_logger = lambda *a, **k: self.log
        dc   = ru.DefaultConfig()
        keep = (dc.log_dir, dc.report_dir, dc.profile_dir)
        old  = os.getcwd()
        os.chdir(self.wd)
        try:
            s._init_cfg_from_scratch()
        finally:
            os.chdir(old)
            dc.log_dir, dc.report_dir, dc.profile_dir = keep
        s._cfg.proxy_url = 'tcp://localhost:10001/'
        wd = self.wd
        sb = 'file://localhost/scratch/radical.pilot.sandbox'
        s._get_endpoint_fs      = lambda pilot: ru.Url('file://localhost/')
        s._get_resource_sandbox = lambda pilot: ru.Url(sb)
        s._get_session_sandbox  = lambda pilot: ru.Url('%s/%s' % (sb, s._uid))
        s._get_pilot_sandbox    = lambda pilot: ru.Url('%s/%s/%s' % (sb, s._uid, pilot['uid']))
        s._get_client_sandbox   = lambda: wd
        self.session = s

        c = lbase.PMGRLaunchingComponent.__new__(lbase.PMGRLaunchingComponent)
        c._uid, c._pmgr = 'pmgr.launching.0000', 'pmgr.0000'
        c._log  = rpshim.NullLog()
        c._log.level, c._log.debug_level = 'OFF', 0
        c._prof = _Prof()
        c._session, c._sandboxes = s, dict()
        c._root_dir   = os.path.dirname(rp.__file__)
        c._rp_version = rp.version
        self.component = c
        return s

    def pairs(self):
        '''(platform, schema) for every shipped platform: its default ('') and each declared schema'''
        out = []
        for site in sorted(self.session._rcfgs):
            for res in sorted(self.session._rcfgs[site]):
                r = self.session._rcfgs[site][res]
                schemas = r.get('schemas') or {}
                for sch in [''] + sorted(schemas):
                    out.append(('%s.%s' % (site, res), sch))
        return out

    # --------------------------------------------------------------------------
    def resolve(self, name, schema):
        '''real get_resource_config; returns (Config event, rcfg or None)'''
        site, res = name.split('.', 1)
        raw = self.session._rcfgs[site][res]
        ev  = {'ev': 'Config', 'ok': False, 'rm': 'none', 'lms': [], 'lmkeys': [], 'sched': 'none',
               'spawner': 'none', 'agentcfg': 'none', 'defschema': str(raw.get('default_schema') or ''),
               'schemas': sorted(str(k) for k in (raw.get('schemas') or {})),
               'jm': False, 'fs': False, 'err': 'none'}
        try:
            rcfg = self.session.get_resource_config(name, schema or None)
            rcfg.verify()                         # as _prepare_pilot does first
        except Exception as e:
            ev['err'] = ('%s: %s' % (type(e).__name__, e))[:300]
            return ev, None
        lms   = rcfg.launch_methods or {}
        order = lms.get('order') or list(lms)
        ac    = rcfg.agent_config
        ev.update({'ok': True, 'rm': str(rcfg.resource_manager), 'lms': [str(x) for x in order],
                   'lmkeys': sorted(str(k) for k in lms), 'sched': str(rcfg.agent_scheduler),
                   'spawner': str(rcfg.agent_spawner),
                   'agentcfg': ac if isinstance(ac, str) else '<inline>',
                   'jm': bool(rcfg.job_manager_endpoint), 'fs': bool(rcfg.filesystem_endpoint)})
        return ev, rcfg

    # --------------------------------------------------------------------------
    def domains(self):
        '''key sets of the factories' tables, read from the running code'''
        if self.tables is None:
            sess = mock.Mock()
            sess.rcfg = ru.Config(from_dict={'agent_scheduler': BOGUS, 'agent_spawner': BOGUS,
                                             'launch_methods': {}})
            t = dict()
            t['rm']    = _capture(ResourceManager.get_manager, BOGUS)[1]
            t['lm']    = _capture(LaunchMethod.create, BOGUS, None, None, None, None)[1]
            t['sched'] = _capture(AgentSchedulingComponent.create, None, sess)[1]
            t['exec']  = _capture(AgentExecutingComponent.create, None, sess)[1]
            # agent configs the package ships, confirmed by the lookup _prepare_pilot uses
            names = []
            for f in sorted(glob.glob(os.path.join(os.path.dirname(rp.__file__), 'configs', 'agent_*.json'))):
                n = os.path.basename(f)[len('agent_'):-len('.json')]
                if ru.Config('radical.pilot', category='agent', name=n):
                    names.append(n)
            t['agent'] = {n: None for n in names}
            self.tables = t
        return {k: sorted(v) for k, v in self.tables.items()}

    # --------------------------------------------------------------------------
    def _made(self, table, factory, *args):
        '''class name the real factory instantiates (constructor stubbed), or "unknown"'''
        stub = lambda self, *a, **k: None
        try:
            classes = set(c for c in table.values() if isinstance(c, type))
            stack   = [mock.patch.object(c, '__init__', stub) for c in classes]
            for p in stack:
                p.start()
            try:
                obj = factory(*args)
            finally:
                for p in stack:
                    p.stop()
            return type(obj).__name__ if obj is not None else 'unknown'
        except (ValueError, RuntimeError, KeyError):
            return 'unknown'

    def factories(self, ev, rcfg):
        '''real factories on the resolved names -> Factories event'''
        self.domains()
        t    = self.tables
        sess = mock.Mock()
        sess.rcfg = rcfg
        out = {'ev': 'Factories'}
        out['rm']    = self._made(t['rm'], ResourceManager.create, ev['rm'], None, rcfg, self.log, self.log)
        out['lms']   = [self._made(t['lm'], LaunchMethod.create, lm, None, None, self.log, self.log)
                        for lm in ev['lms']]
        out['sched'] = self._made(t['sched'], AgentSchedulingComponent.create, None, sess)
        out['exec']  = self._made(t['exec'], AgentExecutingComponent.create, None, sess)
        ac = rcfg.agent_config
        if isinstance(ac, str):
            out['agent'] = bool(ru.Config('radical.pilot', category='agent', name=ac))
        else:
            out['agent'] = isinstance(ac, dict) and bool(ac)
        return out

    # --------------------------------------------------------------------------
    @staticmethod
    def platform(name, rcfg):
        sa = rcfg.system_architecture or {}
        return {'name': name, 'cpn': int(rcfg.cores_per_node or 0), 'gpn': int(rcfg.gpus_per_node or 0),
                'smt': int(sa.get('smt', 1)), 'nbc': len(sa.get('blocked_cores', [])),
                'nbg': len(sa.get('blocked_gpus', [])),
                'bc': [int(x) for x in sa.get('blocked_cores', [])],
                'bg': [int(x) for x in sa.get('blocked_gpus', [])]}

    def _mkstemp(self, leaked, fresh=None):
        real_mkstemp = tempfile.mkstemp

        def mkstemp(*a, **k):
            # the agent config of _prepare_pilot goes to the scratch directory (fresh: a
            # list - one file per call, appended); any other caller (ru.write_json never
            # closes its descriptor) gets the real thing, and the descriptors are closed
            # after the call
            if k.get('prefix') == 'rp.agent_cfg.':
                cfgfile = self.cfgfile
                if fresh is not None:
                    cfgfile = '%s.%d' % (self.cfgfile, len(fresh))
                    fresh.append(cfgfile)
                return os.open(cfgfile, os.O_CREAT | os.O_WRONLY | os.O_TRUNC), cfgfile
            fd, name = real_mkstemp(*a, **k)
            leaked.append(fd)
            return fd, name
        return mkstemp

    def _figures(self, pilot, cfgfile=None):
        '''job description figures and what the agent reads as agent_0.cfg'''
        jd = pilot['jd_dict']
        with open(cfgfile or self.cfgfile) as fh:
            told = json.load(fh)
        return ({'nodes': int(jd.node_count), 'cpus': int(jd.total_cpu_count),
                 'gpus': int(jd.total_gpu_count), 'pph': int(jd.processes_per_host or 0),
                 'smt': int(jd.environment.get('RADICAL_SMT', 0))},
                agent_proj(told), told)

    def prepare(self, name, rcfg, size, mutate=None, with_rm=False):
        '''real _prepare_pilot for one pilot size -> [Prepared event (, AgentRM event)]'''
        zero = {'nodes': 0, 'cpus': 0, 'gpus': 0, 'pph': 0, 'smt': 0}
        ev   = {'ev': 'Prepared', 'size': dict(size), 'ok': False, 'jd': zero,
                'agent': {'nodes': 0, 'backup': 0, 'cores': 0, 'gpus': 0, 'cpn': 0, 'gpn': 0}, 'err': 'none'}
        descr = {'resource': name, 'runtime': 10, 'project': 'verif', 'queue': 'q',
                 'access_schema': None}
        for k in ('nodes', 'cores', 'gpus'):
            if size[k]:
                descr[k] = size[k]
        if size['backup']:
            descr['backup_nodes'] = size['backup']
        leaked, told = [], None
        if size['smt']:
            os.environ['RADICAL_SMT'] = str(size['smt'])
        else:
            os.environ.pop('RADICAL_SMT', None)
        try:
            pd = rp.PilotDescription(descr)
            pd.verify()
            pilot = {'uid': 'pilot.0000', 'description': pd.as_dict()}
            comp  = self.component
            if mutate:
                mutate(self, pilot)
            with mock.patch.object(lbase.tempfile, 'mkstemp', self._mkstemp(leaked)):
                comp._prepare_pilot(name, rcfg, pilot, {}, 'verif.tgz')
            ev['jd'], ev['agent'], told = self._figures(pilot)
            ev['ok'] = True
        except Exception as e:
            ev['err'] = ('%s: %s' % (type(e).__name__, e))[:200]
        finally:
            os.environ.pop('RADICAL_SMT', None)
            for fd in leaked:
                try:
                    os.close(fd)
                except OSError:
                    pass
        if with_rm and told is not None:
            arm = self.agent_rm(told, ev['jd'])
            if arm is not None:
                return [ev, arm]
        return [ev]

    # --------------------------------------------------------------------------
    def agent_rm(self, told, jd):
        '''the platform's real resource manager on the agent config `told`, inside
           a faked allocation of jd['nodes'] nodes -> AgentRM event (None: no such RM here)'''
        name = told['resource_manager']
        cls  = ResourceManager.get_manager(name)
        rcfg = told.get('resource_cfg') or {}
        if cls is None or name not in ('FORK', 'SLURM', 'LSF', 'PBSPRO', 'TORQUE', 'COBALT'):
            return None
        if name == 'FORK' and not rcfg.get('fake_resources') and jd['nodes'] > 1:
            return None                 # a real localhost is one node: the RM refuses on purpose
        n     = jd['nodes']
        nag   = len([a for a in (told.get('agents') or {}).values() if a.get('target') == 'node'])
        if told['nodes'] - nag < 1:
            return None                 # sub-agent nodes take all requested nodes: refused on purpose (C18)
        cpn   = int(told['cores_per_node'])
        smt   = jd['smt'] or 1
        names = ['node%03d' % (i + 1) for i in range(n)]
        ev    = {'ev': 'AgentRM', 'ok': False, 'err': 'none', 'nnodes': 0, 'req': 0, 'cpn': 0, 'gpn': 0,
                 'ncores': 0, 'ngpus': 0, 'downc': [], 'downg': [], 'uniform': False}
        old   = os.getcwd()
        env0  = {k: os.environ.get(k) for k in RM.ENV_VARS}
        qstat = ('', 'qstat: command not found', 127)
        try:
            os.chdir(self.wd)           # Slurm's rm_info.json, ./services
            for k in RM.ENV_VARS:
                if k != 'HOME':
                    os.environ.pop(k, None)
            os.environ['RADICAL_SMT'] = str(smt)              # the job's environment carries it
            nf = os.path.join(self.wd, 'nodefile')
            if name == 'SLURM':
                os.environ['SLURM_NODELIST'] = 'node[%s]' % RM.ranges(list(range(1, n + 1)), 3)
            elif name == 'LSF':
                with open(nf, 'w') as fh:                     # one line per physical core + batch node
                    fh.write('batch1\n' + ''.join((h + '\n') * (cpn // smt) for h in names))
                os.environ['LSB_DJOB_HOSTFILE'] = nf
            elif name in ('PBSPRO', 'TORQUE', 'COBALT'):
                os.environ['PBS_JOBID'] = '4711.pbs'
                if name == 'PBSPRO' and n % 2:
                    qstat = ('Job Id: 4711.pbs\n    exec_vnode = %s\n    Hold_Types = n\n'
                             % '+'.join('(%s:ncpus=%d)' % (h, cpn) for h in names), '', 0)
                else:
                    with open(nf, 'w') as fh:
                        fh.write(''.join((h + '\n') * (1 if name != 'TORQUE' else cpn) for h in names))
                    os.environ['PBS_NODEFILE' if name != 'COBALT' else 'COBALT_NODEFILE'] = nf
            for k, v in RM.RMInfo._defaults.items():           # see rmnodes_rig.make_rm
                if isinstance(v, list):
                    RM.RMInfo._defaults[k] = list()
                elif isinstance(v, dict):
                    RM.RMInfo._defaults[k] = dict()
            rm = cls.__new__(cls)
            rm.name, rm._log, rm._prof = cls.__name__, self.log, self.log
            # as Session._init_cfg_from_dict: rcfg = cfg.resource_cfg, removed from cfg
            acfg = dict(told)
            acfg.pop('resource_cfg', None)
            rm._cfg  = ru.Config(from_dict=acfg)
            rm._rcfg = ru.Config(from_dict=copy.deepcopy(rcfg))
            with mock.patch.object(RM.rmb, 'Process', RM.FakeProcess), \
                 mock.patch.object(ru, 'sh_callout', lambda *a, **k: qstat), \
                 mock.patch.object(fork_mod.multiprocessing, 'cpu_count', lambda: 1 << 20):
                info = rm._init_from_scratch()
                info.verify()
            nodes = info.node_list
            first = nodes[0]
            ev.update({
                'ok': True,
                'nnodes': len(nodes) + len(info.agent_node_list) + len(info.service_node_list),
                'req': int(info.requested_nodes),
                'cpn': int(info.cores_per_node), 'gpn': int(info.gpus_per_node),
                'ncores': len(first['cores']), 'ngpus': len(first['gpus']),
                'downc': [i for i, v in enumerate(first['cores']) if RM.occ(v) == 'D'],
                'downg': [i for i, v in enumerate(first['gpus'])  if RM.occ(v) == 'D'],
                'uniform': all(x['cores'] == first['cores'] and x['gpus'] == first['gpus'] for x in nodes)})
        except Exception as e:
            ev['err'] = ('%s: %s' % (type(e).__name__, e))[:200]
        finally:
            os.chdir(old)
            for k, v in env0.items():
                if v is None:
                    os.environ.pop(k, None)
                else:
                    os.environ[k] = v
            os.environ.pop('RADICAL_SMT', None)
        return ev

    # --------------------------------------------------------------------------
    def expected_endpoints(self, name, schema):
        '''what the shipped configuration lists for the schema a pilot names'''
        site, res = name.split('.', 1)
        raw  = self.session._rcfgs[site][res]
        used = schema or raw['default_schema']
        sch  = raw['schemas'][used]
        return str(sch['job_manager_endpoint']), str(sch['filesystem_endpoint'])

    def _modules(self, installed):
        '''the optional modules of the launchers: stand-in where "installed", absent otherwise'''
        psi, sag = 'PSI_J' in installed, 'SAGA' in installed
        return [mock.patch.object(psi_mod, 'psij', self.psij if psi else None),
                mock.patch.object(psi_mod, 'psij_ex', None if psi else ImportError("No module named 'psij'")),
                mock.patch.object(saga_mod, 'rs', self.saga if sag else None),
                mock.patch.object(saga_mod, 'rs_ex', None if sag else ImportError("No module named 'radical.saga'"))]

    def launching_component(self, installed):
        '''REAL PMGRLaunchingComponent.__init__ (component base class constructor and queue
           registration stubbed): which launchers it holds, in which order, is the code's'''
        key = tuple(sorted(installed))
        if key not in self._comps:
            log = rpshim.NullLog()
            log.level, log.debug_level = 'OFF', 0

            def base_init(comp, cfg, session):
                comp._cfg, comp._session, comp._log, comp._prof = cfg, session, log, _Prof()
                comp._owner = cfg['owner']

            cls = lbase.PMGRLaunchingComponent
            cfg = ru.Config(cfg={'owner': 'pmgr.0000', 'base': self.wd})
            patches = self._modules(installed) + [
                mock.patch.object(lbase.rpu.BaseComponent, '__init__', base_init),
                mock.patch.object(cls, 'register_input', lambda *a, **k: None)]
            for pt in patches:
                pt.start()
            try:
                c = cls(cfg, self.session)
            finally:
                for pt in reversed(patches):
                    pt.stop()
            c._rp_version = self.component._rp_version
            self._comps[key] = c
        return self._comps[key]

    def plat_of(self, name, schema):
        '''node size of the platform as the resolved configuration states it'''
        if (name, schema) not in self._plats:
            rcfg = self.session.get_resource_config(name, schema or None)
            self._plats[(name, schema)] = SizingRig.platform(name, rcfg)
        return self._plats[(name, schema)]

    @staticmethod
    def size_rows(plat):
        '''three requests which differ from each other in every figure and term
           (nodes / cores / gpus / backup, walltime, queue[:qos], project[:reservation])'''
        a = plat['cpn'] * plat['smt'] - plat['nbc']
        g = plat['gpn'] - plat['nbg']
        if plat['cpn'] > 0:
            return [dict(nodes=1, runtime=10, queue='qa', project='pa'),
                    dict(nodes=3, backup_nodes=2, runtime=25, queue='qb:hi', project='pb:res7'),
                    dict(cores=max(2 * a - 1, 2), gpus=(g + 1 if g > 0 else 0), runtime=40, queue='',
                         project='pc')]
        return [dict(cores=8, runtime=10, queue='qa', project='pa'),
                dict(cores=24, runtime=25, queue='qb:hi', project='pb:res7'),
                dict(cores=40, gpus=2, runtime=40, queue='', project='pc')]

    def bulk(self, spec, fail, sizes=None, lset=LAUNCHER_ORDER, seed=0):
        '''spec: list of (platform, schema) - one pilot each, ONE bulk for the real
           work(); sizes: size id (1..3) per pilot (same id = same request; which of
           the three requests an id stands for is drawn from `seed`); lset: the
           launchers whose modules are installed; fail: 1-based index (dict order) of
           the (resource, schema) bucket whose job submission is refused by the batch
           system stand-in, 0 = none.  Returns the trace dict.'''
        rig, events = self, []
        spec  = [tuple(c) for c in spec]
        sizes = list(sizes) if sizes else list(range(1, len(spec) + 1))
        lset  = [str(x) for x in lset]
        perm  = random.Random(seed).sample(range(3), 3)
        order = []
        for c in spec:
            if c not in order:
                order.append(c)
        # python dict order of buckets[resource][schema]
        ress  = []
        for r, _ in order:
            if r not in ress:
                ress.append(r)
        bks   = [c for r in ress for c in order if c[0] == r]
        pilots, pinfo = [], []
        for i, (name, schema) in enumerate(spec):
            row   = dict(self.size_rows(self.plat_of(name, schema))[perm[(sizes[i] - 1) % 3]])
            descr = {'resource': name, 'access_schema': schema or None}
            descr.update({k: v for k, v in row.items() if v not in ('', 0)})
            pd  = rp.PilotDescription(descr)
            pd.verify()
            pid = 'pilot.%04d' % i
            pilots.append({'uid': pid, 'type': 'pilot', 'state': rps.PMGR_LAUNCHING_PENDING,
                           'description': pd.as_dict()})
            jm, fs = self.expected_endpoints(name, schema)
            pinfo.append({'pid': pid, 'plat': name, 'schema': schema, 'jm': jm, 'fs': fs,
                          'scheme': jm.split(':')[0].split('+'),
                          'bucket': bks.index((name, schema)) + 1,
                          'runtime': row['runtime'], 'queue': row['queue'], 'project': row['project'],
                          'size': {'nodes': row.get('nodes', 0), 'cores': row.get('cores', 0),
                                   'gpus': row.get('gpus', 0), 'backup': row.get('backup_nodes', 0),
                                   'smt': 0}})
        failing = set(p['pid'] for p in pinfo if p['bucket'] == fail)
        byid    = {p['pid']: p for p in pinfo}

        comp = self.launching_component(lset)
        c = lbase.PMGRLaunchingComponent.__new__(lbase.PMGRLaunchingComponent)
        c.__dict__.update(comp.__dict__)
        c._pilots, c._lock, c._cancelled, c._sandboxes = dict(), mt.RLock(), list(), dict()

        def advance(things, state=None, publish=True, push=False, **kw):
            events.append({'ev': 'Adv', 'pids': [t['uid'] for t in ru.as_list(things)], 'state': str(state)})
        c.advance = advance

        def stage_in(pilot, sds):
            # agent configs on their way to the pilot sandboxes
            for sd in ru.as_list(sds):
                tgt = str(sd.get('target', '')) if isinstance(sd, dict) else ''
                if os.path.basename(tgt) != 'agent_0.cfg':
                    continue
                with open(str(sd['source'])) as fh:
                    told = json.load(fh)
                events.append({'ev': 'Staged', 'tpid': os.path.basename(os.path.dirname(tgt)),
                               'cpid': str(told['pid']), 'agent': agent_proj(told)})
        c._stage_in = stage_in

        real_bulk, real_prep, cfgfiles = c._start_pilot_bulk, c._prepare_pilot, []

        def start_pilot_bulk(resource, schema, ps):
            events.append({'ev': 'Bulk', 'res': str(resource), 'schema': str(schema or ''),
                           'pids': [p['uid'] for p in ps]})
            return real_bulk(resource, schema, ps)

        def prepare_pilot(resource, rcfg, pilot, expand, tar_name):
            real_prep(resource, rcfg, pilot, expand, tar_name)
            jd, agent, told = rig._figures(pilot, cfgfiles[-1])
            jdd   = pilot['jd_dict']
            info  = byid[pilot['uid']]
            plat  = SizingRig.platform(str(resource), rcfg)
            events.append({'ev': 'BPrepared', 'pid': pilot['uid'], 'res': str(resource),
                           'jm': str(rcfg['job_manager_endpoint']), 'fs': str(rcfg['filesystem_endpoint']),
                           'ajm': str(told['resource_cfg']['job_manager_endpoint']),
                           'sized': plat['cpn'] > 0, 'plat': plat, 'size': info['size'],
                           'jd': jd, 'agent': agent,
                           'walltime': int(jdd.wall_time_limit), 'queue': str(jdd.queue or ''),
                           'project': str(jdd.project or ''), 'defq': str(rcfg.default_queue or ''),
                           'sandbox': str(jdd.working_directory)})

        c._start_pilot_bulk = start_pilot_bulk
        c._prepare_pilot    = prepare_pilot

        # fresh launchers of the classes (and in the order) the real __init__ came up with
        def launcher(name, proto):
            lch  = type(proto)(name, c._log, c._prof, c._state_cb)
            real = lch.launch_pilots

            def launch_pilots(rcfg, ps):
                pids = [p['uid'] for p in ps]
                events.append({'ev': 'Launch', 'by': name, 'pids': pids})
                try:
                    real(rcfg, ps)
                except BaseException as e:
                    events.append({'ev': 'Submit', 'by': name, 'pids': pids, 'ok': False,
                                   'err': ('%s: %s' % (type(e).__name__, e))[:200]})
                    raise
                events.append({'ev': 'Submit', 'by': name, 'pids': pids, 'ok': True, 'err': 'none'})
            lch.launch_pilots = launch_pilots
            return lch

        def job_event(by, pid, req, walltime, queue, project, args, wdir):
            args = _unquoted(args)
            events.append({'ev': 'Job', 'by': by, 'pid': str(pid), 'req': req, 'walltime': int(walltime),
                           'queue': str(queue), 'project': str(project), 'argpid': _after(args, '-p'),
                           'dir': str(wdir)})

        def psij_submit(executor, job):
            # the launcher's own register says which pilot the job is for
            pilot = c._launchers['PSI_J']._pilots.get(job.id) or {}
            pid   = pilot.get('uid', 'unknown')
            sp, rs, at = job.spec, job.spec.resources, job.spec.attributes
            qos   = [v for k, v in sorted((at.custom_attributes or {}).items()) if k.endswith('.qos')]
            job_event('PSI_J', pid,
                      {'nodes': int(rs.node_count or 0), 'cpus': int(rs.process_count or 0),
                       'gpus': int(rs.gpu_cores_per_process or 0), 'pph': int(rs.processes_per_node or 0)},
                      at.duration.total_seconds() // 60,
                      ':'.join([str(at.queue_name or '')] + [str(x) for x in qos]),
                      ':'.join([str(x) for x in (at.project_name or '', at.reservation_id) if x is not None]),
                      sp.arguments, sp.directory)
            if pid in failing:
                raise rig.psij.SubmitException('job submission refused (injected)')

        def saga_run(container):
            for j in container.tasks:
                pid = 'unknown'
                for _, cb in j.callbacks:
                    if isinstance(cb, functools.partial) and 'pid' in cb.keywords:
                        pid = cb.keywords['pid']
                d = j.description
                job_event('SAGA', pid,
                          {'nodes': int(d.get('node_count') or 0), 'cpus': int(d.get('total_cpu_count') or 0),
                           'gpus': int(d.get('total_gpu_count') or 0),
                           'pph': int(d.get('processes_per_host') or 0)},
                          d.get('wall_time_limit') or 0, d.get('queue') or '', d.get('project') or '',
                          d.get('arguments'), d.get('working_directory'))
                j.state = rig.saga.FAILED if pid in failing else rig.saga.PENDING

        leaked, keep = [], tempfile.tempdir
        tempfile.tempdir = self.wd                     # rp_agent_tmp* directories of the bulk
        patches = self._modules(lset)
        for pt in patches:
            pt.start()
        self.hooks.psij_submit, self.hooks.saga_run = psij_submit, saga_run
        try:
            events.append({'ev': 'Launchers', 'names': [str(n) for n in comp._launchers]})
            c._launchers = {n: launcher(n, proto) for n, proto in comp._launchers.items()}
            with mock.patch.object(lbase.tempfile, 'mkstemp', self._mkstemp(leaked, cfgfiles)), \
                 mock.patch.object(ru, 'sh_callout', lambda *a, **k: ('', '', 0)):
                try:
                    c.work(pilots)
                except Exception as e:
                    events.append({'ev': 'Adv', 'pids': [], 'state': 'RAISED:%s' % type(e).__name__})
        finally:
            self.hooks.psij_submit = self.hooks.saga_run = None
            for pt in reversed(patches):
                pt.stop()
            tempfile.tempdir = keep
            for fd in leaked:
                try:
                    os.close(fd)
                except OSError:
                    pass
            for d in glob.glob(os.path.join(self.wd, 'rp_agent_tmp*')):
                shutil.rmtree(d, ignore_errors=True)
            for f in cfgfiles:
                try:
                    os.unlink(f)
                except OSError:
                    pass
        for p in pinfo:
            del p['size']
        return {'kind': 'bulk', 'pilots': pinfo, 'fail': fail, 'lset': lset, 'sizes': sizes,
                'seed': seed, 'events': events}
