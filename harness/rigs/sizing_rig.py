'''
Sizing rig (C17): binds the Sizing specification to the real code.

* `load()` runs the REAL `Session._init_cfg_from_scratch` on a `Session.__new__`
  object (loggers stubbed, user config directory pointed at an empty scratch
  directory so that only the *shipped* resource_*.json are seen).
* `resolve()` runs the REAL `Session.get_resource_config(platform, schema)` for
  a shipped pair and projects what the agent will look up: resource manager,
  launch methods (in launch order), scheduler, executor, agent config, schemas.
* `domains()` extracts the key sets of the factories' tables FROM THE CODE: the
  factory is called with a name it cannot know and the local table `impl` is
  read from the factory's frame when it returns / raises.  The agent config
  domain is the set of agent_*.json the package ships, each confirmed by the
  lookup `_prepare_pilot` uses (`ru.Config('radical.pilot', category='agent')`).
* `factories()` calls the REAL factories for the resolved names with the
  constructor of the selected class stubbed (no component is started).
* `prepare()` runs the REAL `PMGRLaunchingComponent._prepare_pilot` on a
  `__new__` object with faked sandboxes; the agent config is really written
  (mkstemp redirected into the scratch directory) and read back: that file is
  what the agent is told.
'''

import os
import sys
import glob
import json
import shutil
import tempfile

from unittest import mock

from .. import rpshim

rp = rpshim.load()
ru = __import__('radical.utils', fromlist=['x'])

from radical.pilot.session import Session
from radical.pilot.pmgr.launching import base as lbase
from radical.pilot.agent.resource_manager.base import ResourceManager
from radical.pilot.agent.launch_method.base    import LaunchMethod
from radical.pilot.agent.scheduler.base        import AgentSchedulingComponent
from radical.pilot.agent.executing.base        import AgentExecutingComponent

BOGUS = '__no_such_name__'


# ------------------------------------------------------------------------------
def _capture(fn, *args):
    '''call the factory `fn`; return (result or exception, its local `impl` table)'''
    code = getattr(fn, '__func__', fn).__code__
    got  = {}

    def prof(frame, event, arg):
        if event == 'return' and frame.f_code is code:
            impl = frame.f_locals.get('impl')
            if isinstance(impl, dict):
                got['impl'] = dict(impl)

    sys.setprofile(prof)
    try:
        try:
            res = fn(*args)
        except Exception as e:
            res = e
    finally:
        sys.setprofile(None)
    if 'impl' not in got:
        raise RuntimeError('factory %s has no table `impl`' % fn)
    return res, got['impl']


class SizingRig(object):

    def __init__(self):
        self.wd   = tempfile.mkdtemp(prefix='b-rmnodes_sz_', dir=os.environ.get('RP_VERIF_TMP', '/tmp'))
        self.env0 = {k: os.environ.get(k) for k in ('RADICAL_CONFIG_USER_DIR', 'RADICAL_SMT', 'PATH')}
        self.log  = rpshim.NullLog()
        # _prepare_pilot looks up radical-utils-env.sh on $PATH
        os.environ['PATH'] = os.path.dirname(sys.executable) + os.pathsep + os.environ.get('PATH', '')
        os.environ.pop('RADICAL_SMT', None)
        self.session   = None
        self.component = None
        self.tables    = None
        self.cfgfile   = os.path.join(self.wd, 'agent_0.cfg')

    def close(self):
        for k, v in self.env0.items():
            if v is None:
                os.environ.pop(k, None)
            else:
                os.environ[k] = v
        shutil.rmtree(self.wd, ignore_errors=True)

    # --------------------------------------------------------------------------
    def load(self):
        '''real Session._init_cfg_from_scratch -> the shipped resource configs'''
        os.environ['RADICAL_CONFIG_USER_DIR'] = self.wd       # no user overlays
        s = Session.__new__(Session)
        s._cfg, s._uid, s._role = None, 'rp.session.verif.0000', 'primary'
        s._get_profiler = s._get_reporter = s._get_logger = lambda *a, **k: self.log
        dc   = ru.DefaultConfig()
        keep = (dc.log_dir, dc.report_dir, dc.profile_dir)
        old  = os.getcwd()
        os.chdir(self.wd)
        try:
            s._init_cfg_from_scratch()
        finally:
            os.chdir(old)
            dc.log_dir, dc.report_dir, dc.profile_dir = keep
        s._cfg.proxy_url = 'tcp://localhost:10001/'
        wd = self.wd
        sb = 'file://localhost/scratch/radical.pilot.sandbox'
        s._get_endpoint_fs      = lambda pilot: ru.Url('file://localhost/')
        s._get_resource_sandbox = lambda pilot: ru.Url(sb)
        s._get_session_sandbox  = lambda pilot: ru.Url('%s/%s' % (sb, s._uid))
        s._get_pilot_sandbox    = lambda pilot: ru.Url('%s/%s/%s' % (sb, s._uid, pilot['uid']))
        s._get_client_sandbox   = lambda: wd
        self.session = s

        c = lbase.PMGRLaunchingComponent.__new__(lbase.PMGRLaunchingComponent)
        c._uid, c._pmgr = 'pmgr.launching.0000', 'pmgr.0000'
        c._log  = rpshim.NullLog()
        c._log.level, c._log.debug_level = 'OFF', 0
        c._prof = ru.Config(cfg={'enabled': False})
        c._session, c._sandboxes = s, dict()
        c._root_dir   = os.path.dirname(rp.__file__)
        c._rp_version = rp.version
        self.component = c
        return s

    def pairs(self):
        '''(platform, schema) for every shipped platform: its default ('') and each declared schema'''
        out = []
        for site in sorted(self.session._rcfgs):
            for res in sorted(self.session._rcfgs[site]):
                r = self.session._rcfgs[site][res]
                schemas = r.get('schemas') or {}
                for sch in [''] + sorted(schemas):
                    out.append(('%s.%s' % (site, res), sch))
        return out

    # --------------------------------------------------------------------------
    def resolve(self, name, schema):
        '''real get_resource_config; returns (Config event, rcfg or None)'''
        site, res = name.split('.', 1)
        raw = self.session._rcfgs[site][res]
        ev  = {'ev': 'Config', 'ok': False, 'rm': 'none', 'lms': [], 'lmkeys': [], 'sched': 'none',
               'spawner': 'none', 'agentcfg': 'none', 'defschema': str(raw.get('default_schema') or ''),
               'schemas': sorted(str(k) for k in (raw.get('schemas') or {})),
               'jm': False, 'fs': False, 'err': 'none'}
        try:
            rcfg = self.session.get_resource_config(name, schema or None)
            rcfg.verify()                         # as _prepare_pilot does first
        except Exception as e:
            ev['err'] = ('%s: %s' % (type(e).__name__, e))[:300]
            return ev, None
        lms   = rcfg.launch_methods or {}
        order = lms.get('order') or list(lms)
        ac    = rcfg.agent_config
        ev.update({'ok': True, 'rm': str(rcfg.resource_manager), 'lms': [str(x) for x in order],
                   'lmkeys': sorted(str(k) for k in lms), 'sched': str(rcfg.agent_scheduler),
                   'spawner': str(rcfg.agent_spawner),
                   'agentcfg': ac if isinstance(ac, str) else '<inline>',
                   'jm': bool(rcfg.job_manager_endpoint), 'fs': bool(rcfg.filesystem_endpoint)})
        return ev, rcfg

    # --------------------------------------------------------------------------
    def domains(self):
        '''key sets of the factories' tables, read from the running code'''
        if self.tables is None:
            sess = mock.Mock()
            sess.rcfg = ru.Config(from_dict={'agent_scheduler': BOGUS, 'agent_spawner': BOGUS,
                                             'launch_methods': {}})
            t = dict()
            t['rm']    = _capture(ResourceManager.get_manager, BOGUS)[1]
            t['lm']    = _capture(LaunchMethod.create, BOGUS, None, None, None, None)[1]
            t['sched'] = _capture(AgentSchedulingComponent.create, None, sess)[1]
            t['exec']  = _capture(AgentExecutingComponent.create, None, sess)[1]
            # agent configs the package ships, confirmed by the lookup _prepare_pilot uses
            names = []
            for f in sorted(glob.glob(os.path.join(os.path.dirname(rp.__file__), 'configs', 'agent_*.json'))):
                n = os.path.basename(f)[len('agent_'):-len('.json')]
                if ru.Config('radical.pilot', category='agent', name=n):
                    names.append(n)
            t['agent'] = {n: None for n in names}
            self.tables = t
        return {k: sorted(v) for k, v in self.tables.items()}

    # --------------------------------------------------------------------------
    def _made(self, table, factory, *args):
        '''class name the real factory instantiates (constructor stubbed), or "unknown"'''
        stub = lambda self, *a, **k: None
        try:
            classes = set(c for c in table.values() if isinstance(c, type))
            stack   = [mock.patch.object(c, '__init__', stub) for c in classes]
            for p in stack:
                p.start()
            try:
                obj = factory(*args)
            finally:
                for p in stack:
                    p.stop()
            return type(obj).__name__ if obj is not None else 'unknown'
        except (ValueError, RuntimeError, KeyError):
            return 'unknown'

    def factories(self, ev, rcfg):
        '''real factories on the resolved names -> Factories event'''
        self.domains()
        t    = self.tables
        sess = mock.Mock()
        sess.rcfg = rcfg
        out = {'ev': 'Factories'}
        out['rm']    = self._made(t['rm'], ResourceManager.create, ev['rm'], None, rcfg, self.log, self.log)
        out['lms']   = [self._made(t['lm'], LaunchMethod.create, lm, None, None, self.log, self.log)
                        for lm in ev['lms']]
        out['sched'] = self._made(t['sched'], AgentSchedulingComponent.create, None, sess)
        out['exec']  = self._made(t['exec'], AgentExecutingComponent.create, None, sess)
        ac = rcfg.agent_config
        if isinstance(ac, str):
            out['agent'] = bool(ru.Config('radical.pilot', category='agent', name=ac))
        else:
            out['agent'] = isinstance(ac, dict) and bool(ac)
        return out

    # --------------------------------------------------------------------------
    @staticmethod
    def platform(name, rcfg):
        sa = rcfg.system_architecture or {}
        return {'name': name, 'cpn': int(rcfg.cores_per_node or 0), 'gpn': int(rcfg.gpus_per_node or 0),
                'smt': int(sa.get('smt', 1)), 'nbc': len(sa.get('blocked_cores', [])),
                'nbg': len(sa.get('blocked_gpus', []))}

    def prepare(self, name, rcfg, size, mutate=None):
        '''real _prepare_pilot for one pilot size -> Prepared event'''
        zero = {'nodes': 0, 'cpus': 0, 'gpus': 0, 'pph': 0, 'smt': 0}
        ev   = {'ev': 'Prepared', 'size': dict(size), 'ok': False, 'jd': zero,
                'agent': {'nodes': 0, 'backup': 0, 'cores': 0, 'gpus': 0, 'cpn': 0, 'gpn': 0}, 'err': 'none'}
        descr = {'resource': name, 'runtime': 10, 'project': 'verif', 'queue': 'q',
                 'access_schema': None}
        for k in ('nodes', 'cores', 'gpus'):
            if size[k]:
                descr[k] = size[k]
        if size['backup']:
            descr['backup_nodes'] = size['backup']
        cfgfile = self.cfgfile

        real_mkstemp, leaked = tempfile.mkstemp, []

        def mkstemp(*a, **k):
            # the agent config of _prepare_pilot goes to the scratch directory; any other
            # caller (ru.write_json never closes its descriptor) gets the real thing, and
            # the descriptors are closed after the call
            if k.get('prefix') == 'rp.agent_cfg.':
                return os.open(cfgfile, os.O_CREAT | os.O_WRONLY | os.O_TRUNC), cfgfile
            fd, name = real_mkstemp(*a, **k)
            leaked.append(fd)
            return fd, name

        if size['smt']:
            os.environ['RADICAL_SMT'] = str(size['smt'])
        else:
            os.environ.pop('RADICAL_SMT', None)
        try:
            pd = rp.PilotDescription(descr)
            pd.verify()
            pilot = {'uid': 'pilot.0000', 'description': pd.as_dict()}
            comp  = self.component
            if mutate:
                mutate(self, pilot)
            with mock.patch.object(lbase.tempfile, 'mkstemp', mkstemp):
                comp._prepare_pilot(name, rcfg, pilot, {}, 'verif.tgz')
            jd = pilot['jd_dict']
            with open(cfgfile) as fh:
                told = json.load(fh)              # what the agent reads as agent_0.cfg
            ev['ok'] = True
            ev['jd'] = {'nodes': int(jd.node_count), 'cpus': int(jd.total_cpu_count),
                        'gpus': int(jd.total_gpu_count), 'pph': int(jd.processes_per_host or 0),
                        'smt': int(jd.environment.get('RADICAL_SMT', 0))}
            ev['agent'] = {'nodes': int(told['nodes']), 'backup': int(told['backup_nodes']),
                           'cores': int(told['cores']), 'gpus': int(told['gpus']),
                           'cpn': int(told['cores_per_node'] or 0), 'gpn': int(told['gpus_per_node'] or 0)}
        except Exception as e:
            ev['err'] = ('%s: %s' % (type(e).__name__, e))[:200]
        finally:
            os.environ.pop('RADICAL_SMT', None)
            for fd in leaked:
                try:
                    os.close(fd)
                except OSError:
                    pass
        return ev
