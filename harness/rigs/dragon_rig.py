'''
Dragon executor rig: both halves of the Dragon executor as the REAL code, under
the baton controller.

  agent side  : agent/executing/dragon.py  Dragon._handle_task / cancel_task /
                _dragon_watch on top of the real Popen.work and the base class
                (_control_cb -> control_cb, handle_timeout, _to_watcher)
  server side : bin/radical-pilot-dragon-executor.py  Server._worker_thread /
                _launch / _launch_mpi / _launch_nonmpi / _launch_function /
                _watcher_thread, GroupHandler, AsyncResultHandler -- loaded from
                the source file of the tree under test

The dragon runtime is not installed.  The server script is loaded with in-memory
stand-ins for exactly the names it imports:
  dragon.native.process        Popen (PIPE / DEVNULL), Process(None, ident=puid) with
                               .stdout_conn / .stderr_conn (recv raises EOFError at end),
                               ProcessTemplate(target, args, env, cwd, ...)
  dragon.native.process_group  ProcessGroup(restart, pmi_enabled, policy) with
                               add_process / init / start / close and
                               .inactive_puids = [(puid, exit code)] of the processes
                               that have EXITED so far (dragon's documented meaning)
  multiprocessing              set_start_method (ignored), Pool(n).apply_async(f, args)
                               -> result with ready() / get(), Queue()
  ru.zmq.Pipe                  the two ZMQ pipes, put() / get_nowait(timeout); a message
                               arrives as a copy of what was sent
The pool job itself (`_run_nonmpi`: sh_callout of the exec script) is the task's
process: it is not run, its (out, err, ret) come from the scenario.

Logical threads: intake, control, timeout (agent), dwatch (agent watcher),
srv_worker, srv_watcher (server), rank:<t>:<r> (rank r of t exits).
One event is recorded per linearization point for DragonExecTrace.tla.
'''

import os
import sys
import copy
import importlib.util
import threading

from collections import defaultdict
from importlib.machinery import SourceFileLoader
from unittest import mock

from .. import rpshim
from .. import sched_ctl as SC

rp  = rpshim.load()
ru  = __import__('radical.utils', fromlist=['x'])
rps = rp.states
rpc = rp.constants

from radical.pilot.agent.executing import dragon as dmod
from radical.pilot.agent.executing import base   as bmod

NOEXIT = -99999
NOST   = -1

SERVER_SRC = os.path.join(os.path.dirname(os.path.realpath(rpshim.SRC)), 'bin',
                          'radical-pilot-dragon-executor.py')

_CUR       = [None]          # the rig the stand-ins talk to (one rig at a time per process)
_LOAD_LOCK = threading.Lock()
_SRV_MOD   = [None]


class _Stop(BaseException):
    '''ends the endless loops of the real code once nothing can happen any more'''


class LaunchError(Exception):
    pass


class Lazy(object):
    def __init__(self, fn):
        self.fn = fn
    @property
    def owner(self):
        return None if self.fn() else 'idle'


def kind(name):
    return 'rank' if name.startswith('rank:') else name


BOUNDARY = {'intake'     : {'intake_get'},
            'control'    : {'ctrl_recv'},
            'timeout'    : {'clock', 'sleep'},
            'srv_worker' : {'a2s_get'},
            'srv_watcher': {'srv_sleep'},      # a macro step is a whole pass over the handlers
            'dwatch'     : {'s2a_get'},
            'rank'       : {'rank_wait', 'rank_exit'}}


# ------------------------------------------------------------------------------
# stand-ins for the dragon modules (they consult the current rig)
class _DPopen(object):
    PIPE, DEVNULL = -1, -3


class _Conn(object):
    def recv(self):
        raise EOFError()
    def close(self):
        pass


class _DProcess(object):
    def __init__(self, target, ident=None, **kw):
        self.ident = ident
        self.stdout_conn, self.stderr_conn = _Conn(), _Conn()


class _DTemplate(object):
    def __init__(self, target=None, args=None, env=None, cwd=None, **kw):
        self.target, self.args, self.env, self.cwd = target, args, dict(env or {}), cwd


class _DGroup(object):
    def __init__(self, restart=False, pmi_enabled=False, policy=None, **kw):
        self.templates, self.uid, self.started = [], None, False

    def add_process(self, nproc, template):
        self.uid = template.cwd.rsplit('/', 1)[-1]
        self.templates.append(template)

    def init(self):
        pass

    def start(self):
        self.started = True
        _CUR[0].launched(self.uid, len(self.templates))

    @property
    def inactive_puids(self):
        rig = _CUR[0]
        rig.emit(rig.ctl.current(), 'SrvRead', uid=self.uid, status=len(rig.exit_order[self.uid]))
        return [(1000 * rig.index[self.uid] + r, rig.spec[self.uid]['rets'][r])
                for r in rig.exit_order[self.uid]]

    @property
    def puids(self):
        rig = _CUR[0]
        return [1000 * rig.index[self.uid] + r for r in range(len(self.templates))
                if r not in rig.exit_order[self.uid]]

    def close(self):
        rig = _CUR[0]
        rig.emit(rig.ctl.current(), 'GroupClose', uid=self.uid,
                 status=len(self.templates) - len(rig.exit_order[self.uid]))


def load_server():
    '''import bin/radical-pilot-dragon-executor.py of the tree under test'''
    with _LOAD_LOCK:
        if _SRV_MOD[0] is not None:
            return _SRV_MOD[0]
        import types
        import multiprocessing as mp
        stubs = {}
        for name in ('dragon', 'dragon.native', 'dragon.native.process', 'dragon.native.process_group'):
            stubs[name] = types.ModuleType(name)
        stubs['dragon.native.process'].Popen           = _DPopen
        stubs['dragon.native.process'].Process         = _DProcess
        stubs['dragon.native.process'].ProcessTemplate = _DTemplate
        stubs['dragon.native.process_group'].ProcessGroup = _DGroup
        stubs['dragon'].native = stubs['dragon.native']
        stubs['dragon.native'].process       = stubs['dragon.native.process']
        stubs['dragon.native'].process_group = stubs['dragon.native.process_group']
        loader = SourceFileLoader('rp_verif_dragon_server', SERVER_SRC)
        spec   = importlib.util.spec_from_loader('rp_verif_dragon_server', loader)
        mod    = importlib.util.module_from_spec(spec)
        with mock.patch.dict(sys.modules, stubs), \
             mock.patch.object(mp, 'set_start_method', lambda *a, **k: None):
            loader.exec_module(mod)
        _SRV_MOD[0] = mod
        return mod


class Scenario(object):
    '''
    tasks  : list of dict(uid, rets=[exit code per rank], mode in {exec, func, badfunc},
                          fault in {none, nolauncher, script}, timeout=0|n)
             badfunc: a function task with two ranks (the server asserts ranks == 1)
    bulks  : list of uid lists;  cancels: list of uid lists (one control message each)
    '''
    def __init__(self, tasks, bulks=None, cancels=()):
        self.tasks   = [dict(t) for t in tasks]
        self.bulks   = [list(b) for b in (bulks or [[t['uid']] for t in tasks])]
        self.cancels = [list(c) for c in cancels]

    def as_dict(self):
        return {'tasks': self.tasks, 'bulks': self.bulks, 'cancels': self.cancels}


class DragonRig(object):

    def __init__(self, scn, chooser, max_steps=6000, mutate=None):
        self.scn      = scn
        self.events   = []
        self.ctl      = SC.Controller(chooser, max_steps=max_steps)
        self.now      = 100.0
        self.ops      = defaultdict(int)
        self.spec     = {t['uid']: t for t in scn.tasks}
        self.index    = {t['uid']: i + 1 for i, t in enumerate(scn.tasks)}
        self.accepted = []
        self.finished = set()
        self.died     = {}
        self.busy     = set()
        self.exit_order = {t['uid']: [] for t in scn.tasks}     # ranks which exited, in order
        self.started  = {}            # uid -> number of ranks the server started
        self.sent_done = set()
        self.hello    = False
        self.epoch, self.seen_epoch = 0, -1      # changes the server watcher could observe
        self.to_registered = set()
        self.to_fired      = set()
        self.skipped  = 0
        self.mutate   = mutate
        self.srv_mod  = load_server()
        self._build()

    # ----------------------------------------------------------------------
    def emit(self, who, ev, **kw):
        if self.ctl.aborting:
            return
        e = {'who': who or 'setup', 'ev': ev, 'uid': 'none', 'uids': [], 'state': 'none',
             'push': False, 'target': 'none', 'exit': NOEXIT, 'exc': 'no', 'name': 'none',
             'status': NOST, 'rank': 0, 'res': False}
        e.update(kw)
        self.events.append(e)

    def point(self, name, wants=None):
        if self.ctl.aborting:
            raise SC.Abort()
        self.ctl.point(name, wants=wants)

    def launched(self, uid, nranks):
        self.started[uid] = nranks
        self.emit(self.ctl.current(), 'Launch', uid=uid, status=nranks)

    def guard(self, name, fn):
        try:
            fn()
        except _Stop:
            pass
        except Exception as e:
            self.died[name] = repr(e)
            self.busy.discard(name)
            self.emit(name, 'ThreadDied', name=repr(e)[:200])

    # ----------------------------------------------------------------------
    def rank_threads(self):
        out = []
        for t in self.scn.tasks:
            if t['fault'] == 'none' and t['mode'] != 'badfunc':
                out += [(t['uid'], r) for r in range(len(t['rets']))]
        return out

    def srv_watcher_has_work(self):
        '''something changed since the server watcher began its last pass over the handlers'''
        if not self.hello or self.srv._watcher_queue.items or self.epoch > self.seen_epoch:
            return True
        return self.quiet()

    def to_pending(self):
        return [u for u in self.to_registered if u not in self.to_fired]

    def timeout_has_work(self):
        return bool(self.ex._to_tasks) or bool(self.to_pending()) or self.quiet()

    def quiet(self):
        if not ('intake' in self.finished and 'control' in self.finished):
            return False
        worker_dead = 'srv_worker' in self.died
        if not worker_dead and (self.a2s.items or 'srv_worker' in self.busy):
            return False
        for (u, r) in self.rank_threads():
            if ('rank:%s:%d' % (u, r)) not in self.finished:
                return False
        if 'srv_watcher' not in self.died:
            if not self.hello or self.srv._watcher_queue.items or 'srv_watcher' in self.busy:
                return False
            if any(u not in self.sent_done for u in self.started):
                return False
        if 'dwatch' not in self.died and (self.s2a.items or 'dwatch' in self.busy):
            return False
        if 'timeout' not in self.died and (self.ex._to_tasks or self.to_pending()):
            return False
        return True

    def stuck(self, uid):
        '''the run request of uid will never be launched: the server worker died'''
        return 'srv_worker' in self.died and uid not in self.started and 'intake' in self.finished

    # ----------------------------------------------------------------------
    def _build(self):
        rig, ctl, scn = self, self.ctl, self.scn

        class Pipe(object):
            '''one direction of the ZMQ pipe pair; a message arrives as a copy'''
            def __init__(self, name):
                self.name, self.items, self.url = name, [], b'tcp://127.0.0.1:1'

            def put(self, msg):
                who = ctl.current()
                if who:
                    rig.point(self.name + '_put')
                self.items.append(copy.deepcopy(msg))
                cmd = msg.get('cmd')
                if self.name == 's2a':
                    if cmd == 'hello':
                        rig.hello = True
                    else:
                        t = msg['task']
                        rig.sent_done.add(t['uid'])
                        rig.ops[who] += 1
                        xc = t.get('exit_code')
                        rig.emit(who, 'SrvDone', uid=t['uid'], target=str(t.get('target_state') or 'none'),
                                 exit=NOEXIT if xc is None else int(xc),
                                 status=len(rig.exit_order[t['uid']]))
                elif cmd == 'run':
                    rig.emit(who, 'RunReq', uid=msg['task']['uid'])
                elif cmd == 'cancel':
                    rig.emit(who, 'CancelReq', uid=msg['uid'])

            def get_nowait(self, timeout=None):
                who = ctl.current()
                rig.busy.discard(who)
                rig.point(self.name + '_get', wants=Lazy(lambda: bool(self.items) or rig.quiet()))
                if not self.items:
                    if who == 'srv_worker':
                        raise _Stop()
                    return None
                rig.busy.add(who)
                rig.ops[who] += 1
                return self.items.pop(0)

        self.a2s, self.s2a = Pipe('a2s'), Pipe('s2a')

        def pipe_factory(mode, url=None):
            return rig.a2s if ctl.current() == 'srv_worker' else rig.s2a

        class Zmq(object):
            MODE_PUSH, MODE_PULL = ru.zmq.MODE_PUSH, ru.zmq.MODE_PULL
            Pipe = staticmethod(pipe_factory)
            def __getattr__(self, k):
                return getattr(ru.zmq, k)

        class Ru(object):
            '''radical.utils as seen by dragon.py and by the server script'''
            zmq = Zmq()
            @staticmethod
            def get_hostip(*a, **k):
                return '127.0.0.1'
            @staticmethod
            def get_hostname(*a, **k):
                return 'localhost'
            def __getattr__(self, k):
                return getattr(ru, k)

        self.Ru = Ru

        # ---- server ------------------------------------------------------------------
        class WQ(object):
            '''Server._watcher_queue (queue.Queue between worker and watcher thread)'''
            def __init__(self):
                self.items = []
            def put(self, x):
                rig.point('wq_put')
                self.items.append(x)
                rig.epoch += 1
            def empty(self):
                if ctl.current() == 'srv_watcher':
                    rig.seen_epoch = rig.epoch          # a new pass over the handlers begins
                return not self.items
            def get(self):
                rig.point('wq_get')
                return self.items.pop(0)

        class Result(object):
            '''multiprocessing.pool.AsyncResult of the pool job running the task'''
            def __init__(self, uid):
                self.uid = uid
            def ready(self):
                rig.point('res_ready')
                return bool(rig.exit_order[self.uid])
            def get(self, timeout=None):
                rig.emit(ctl.current(), 'SrvRead', uid=self.uid, status=len(rig.exit_order[self.uid]))
                ret = rig.spec[self.uid]['rets'][0]
                if rig.spec[self.uid]['mode'] == 'func':
                    return '', '', ret, None, (None, None) if ret == 0 else 'RuntimeError()'
                return '', '', ret, None, None

        class FPool(object):
            def __init__(self, n):
                self.n = n
            def apply_async(self, func, args=()):
                uid = args[0]['uid']
                rig.launched(uid, 1)
                return Result(uid)

        class Mp(object):
            Pool = FPool
            @staticmethod
            def Queue():
                return mock.Mock()

        self.Mp = Mp

        class Flag(object):
            def __init__(self):
                self.v = False
            def set(self):
                self.v = True
            def is_set(self):
                return self.v
            def wait(self, timeout=None):
                return self.v

        mod = self.srv_mod
        srv = mod.Server.__new__(mod.Server)
        self.srv = srv
        srv._uid  = 'radical.pilot.dragon.0000'
        srv._log  = rpshim.NullLog()
        srv._prof = rpshim.NullLog()
        srv._term = Flag()
        srv._pipe_in, srv._pipe_out, srv._pool = None, None, None
        srv._slots = 16
        srv._free  = 16
        srv._watcher_queue = WQ()
        srv._logger_queue  = mock.Mock()
        srv._watcher_event = Flag()
        srv._worker_event  = Flag()

        # ---- agent -------------------------------------------------------------------
        class TasksDict(dict):
            def update(self, other):
                rig.point('tasks_update')
                dict.update(self, other)
            def get(self, k, d=None):
                if ctl.current():
                    rig.point('tasks_get')
                return dict.get(self, k, d)

        class Launcher(object):
            name = 'FORK'

        class RM(object):
            def find_launcher(self, task):
                if rig.spec[task['uid']]['fault'] == 'nolauncher':
                    return None, None
                return Launcher(), 'FORK'

        class Term(object):
            def is_set(self):
                return rig.quiet() if ctl.current() in ('timeout', 'dwatch') else False

        class Pub(object):
            def put(self, topic, msg):
                pass

        class Out(object):
            channel = 'agent_staging_output_queue'
            def put(self, things, qname=None):
                pass

        ex = dmod.Dragon.__new__(dmod.Dragon)
        self.ex = ex
        ex._uid  = 'agent.executing.0'
        ex._log  = rpshim.NullLog()
        ex._prof = rpshim.NullLog()
        ex._cfg  = ru.Config(from_dict={})
        sess = mock.Mock()
        sess.rcfg = ru.Config(from_dict={'new_session_per_task': False})
        ex._session = sess
        ex._rm   = RM()
        ex._term = Term()
        ex._tasks       = TasksDict()
        ex._check_lock  = SC.CLock(ctl, 'check')
        ex._cancel_lock = SC.CLock(ctl, 'cancel', reentrant=True)
        ex._cancel_list = list()
        ex._to_tasks    = list()
        ex._to_lock     = SC.CLock(ctl, 'to')
        ex._publishers  = {rpc.STATE_PUBSUB: Pub(), rpc.AGENT_UNSCHEDULE_PUBSUB: Pub()}
        ex._outputs     = {rps.AGENT_STAGING_OUTPUT_PENDING: Out()}
        ex._inputs      = dict()
        ex._workers     = dict()
        ex._pipe_out    = self.a2s
        ex._url_in, ex._url_out = 'tcp://in', 'tcp://out'

        def _scripts_exec(launcher, task):
            if rig.spec[task['uid']]['fault'] == 'script':
                raise LaunchError('script creation failed')
            return '$RP_TASK_SANDBOX/%s.exec.sh' % task['uid'], '/sbox/%s/%s.exec.sh' % (task['uid'], task['uid'])
        ex._create_exec_script = _scripts_exec

        real_publish = ex.publish
        def _publish(pubsub, msg, topic=None):
            if ctl.current():
                rig.point('publish')
            real_publish(pubsub, msg, topic)
            if pubsub == rpc.AGENT_UNSCHEDULE_PUBSUB and ru.as_list(msg):
                rig.emit(ctl.current(), 'PubUnsched', uids=[t['uid'] for t in ru.as_list(msg)])
        ex.publish = _publish

        real_adv = ex.advance
        def _adv(things, state=None, publish=True, push=False, **kw):
            tl = ru.as_list(things)
            if ctl.current():
                rig.point('advance')
            real_adv(things, state, publish=publish, push=push, **kw)
            for t in tl:
                xc = t.get('exit_code')
                who = ctl.current()
                # what the server knew of this task when the outcome left it
                rig.emit(who, 'Adv', uid=t['uid'], state=t['state'], push=bool(push),
                         target=str(t.get('target_state') or 'none'),
                         exit=NOEXIT if xc is None else int(xc),
                         exc='yes' if t.get('exception') not in (None, '', 'None') else 'no')
        ex.advance = _adv

        real_ht = ex.handle_timeout
        def _ht(task):
            real_ht(task)
            if rig.spec[task['uid']].get('timeout'):
                rig.to_registered.add(task['uid'])
                rig.emit(ctl.current(), 'RegTimeout', uid=task['uid'])
        ex.handle_timeout = _ht

        real_cancel = ex.cancel_task
        def _cancel(task):
            if ctl.current() == 'timeout':
                rig.ops['timeout'] += 1
                rig.emit('timeout', 'TimeoutFire', uid=task['uid'])
                try:
                    return real_cancel(task)
                finally:
                    rig.to_fired.add(task['uid'])
            return real_cancel(task)
        ex.cancel_task = _cancel

        ex.stop = lambda *a, **k: rig.emit(ctl.current(), 'ComponentStop')

        if self.mutate:
            self.mutate(self)

        # ---- tasks -------------------------------------------------------------------
        self.tasks = {}
        for t in scn.tasks:
            d = {'uid': t['uid'], 'executable': '/bin/true'}
            if t.get('timeout'):
                d['timeout'] = float(t['timeout'])
            td = rp.TaskDescription(d)
            td.verify()
            dd = td.as_dict()
            dd['ranks'] = len(t['rets'])
            if t['mode'] in ('func', 'badfunc'):
                dd['mode'], dd['function'] = rp.TASK_FUNCTION, 'hello'
            self.tasks[t['uid']] = {'uid': t['uid'], 'type': 'task',
                                    'state': rps.AGENT_EXECUTING_PENDING, 'origin': 'client',
                                    'description': dd, 'task_sandbox_path': '/sbox/' + t['uid'],
                                    'slots': [{'node_index': 0, 'node_name': 'n0', 'cores': [0],
                                               'gpus': [], 'lfs': 0, 'mem': 0}]}

    # ----------------------------------------------------------------------
    def run(self):
        rig, ex, srv, ctl, mod = self, self.ex, self.srv, self.ctl, self.srv_mod
        _CUR[0] = self

        class STime(object):
            '''time module seen by the server script'''
            @staticmethod
            def sleep(d):
                who = ctl.current()
                if who == 'srv_watcher':
                    rig.busy.discard(who)
                    rig.point('srv_sleep', wants=Lazy(rig.srv_watcher_has_work))
                    if rig.hello and not srv._watcher_queue.items and \
                       rig.epoch <= rig.seen_epoch and rig.quiet():
                        raise _Stop()
                    rig.busy.add(who)
            @staticmethod
            def time():
                return rig.now

        class DTime(object):
            '''time module seen by dragon.py'''
            @staticmethod
            def sleep(d):
                pass
            @staticmethod
            def time():
                return rig.now

        class BTime(object):
            '''time module seen by executing/base.py (timeouts, virtual clock)'''
            @staticmethod
            def sleep(d):
                rig.point('sleep', wants=Lazy(rig.timeout_has_work))
                rig.now += d
            @staticmethod
            def time():
                if ctl.current() == 'timeout':
                    rig.point('clock', wants=Lazy(rig.timeout_has_work))
                    rig.now += 1000.0
                return rig.now

        def intake():
            def body():
                for bulk in rig.scn.bulks:
                    rig.point('intake_get')
                    rig.ops['intake'] += 1
                    tasks = [rig.tasks[u] for u in bulk]
                    rig.accepted.extend(bulk)
                    for u in bulk:
                        rig.emit('intake', 'Accept', uid=u)
                    ex.work(tasks)
            try:
                rig.guard('intake', body)
            finally:
                rig.finished.add('intake')

        def control():
            def body():
                for uids in rig.scn.cancels:
                    rig.point('ctrl_recv')
                    rig.ops['control'] += 1
                    rig.emit('control', 'CancelMsg', uids=list(uids))
                    ex._control_cb(rpc.CONTROL_PUBSUB,
                                   {'cmd': 'cancel_tasks', 'arg': {'uids': list(uids)}})
            try:
                rig.guard('control', body)
            finally:
                rig.finished.add('control')

        def mk_rank(uid, r):
            me = 'rank:%s:%d' % (uid, r)
            def body():
                rig.point('rank_wait', wants=Lazy(lambda: uid in rig.started or rig.stuck(uid)))
                if uid in rig.started:
                    rig.point('rank_exit')
                    rig.exit_order[uid].append(r)
                    rig.epoch += 1
                    rig.ops[me] += 1
                    rig.emit(me, 'RankExit', uid=uid, rank=r, status=int(rig.spec[uid]['rets'][r]))
                rig.finished.add(me)
            return body

        ctl.spawn('intake', intake)
        ctl.spawn('srv_worker',  lambda: rig.guard('srv_worker',  srv._worker_thread))
        ctl.spawn('srv_watcher', lambda: rig.guard('srv_watcher', srv._watcher_thread))
        ctl.spawn('dwatch',      lambda: rig.guard('dwatch', lambda: ex._dragon_watch('tcp://in')))
        if self.scn.cancels:
            ctl.spawn('control', control)
        else:
            self.finished.add('control')
        if any(t.get('timeout') for t in self.scn.tasks):
            ctl.spawn('timeout', lambda: rig.guard('timeout', ex._to_watcher))
        for (u, r) in self.rank_threads():
            ctl.spawn('rank:%s:%d' % (u, r), mk_rank(u, r))

        err = None
        the_ru = self.Ru()
        with mock.patch.object(mod, 'time', STime), \
             mock.patch.object(mod, 'mp', self.Mp), \
             mock.patch.object(mod, 'ru', the_ru), \
             mock.patch.object(dmod, 'ru', the_ru), \
             mock.patch.object(dmod, 'time', DTime), \
             mock.patch.object(bmod, 'time', BTime):
            try:
                ctl.run()
            except SC.Deadlock as e:
                err = 'deadlock: %s' % str(e)[:300]
                ctl.abort()
            except Exception as e:
                err = 'exception: %r' % e
                ctl.abort()
        self.ctl.aborting = False
        self.emit('rig', 'End', res=bool(self.quiet()), name=err or 'none', uids=list(self.accepted))
        self.ctl.aborting = True
        _CUR[0] = None
        return self.trace()

    def trace(self):
        return {'uids': [t['uid'] for t in self.scn.tasks],
                'spec': {t['uid']: {'rets': [int(r) for r in t['rets']], 'mode': t['mode'],
                                    'fault': t['fault'], 'timeout': int(t.get('timeout') or 0)}
                         for t in self.scn.tasks},
                'events': self.events,
                'schedule': [c for _, c in self.ctl.choices],
                'skipped': self.skipped}


# ------------------------------------------------------------------------------
def macro_scripted(rig_ref, script):
    '''one macro step per script item (see flux_rig.macro_scripted)'''
    it = list(script)
    st = {'cur': None, 'c0': 0}

    def ch(en, ctl):
        rig = rig_ref[0]
        cur = st['cur']
        if cur is not None and cur in en:
            lt = ctl.threads[cur]
            if not (rig.ops[cur] > st['c0'] and lt.at in BOUNDARY[kind(cur)]):
                return cur
        st['cur'] = None
        while it:
            n = it.pop(0)
            if n in en:
                st['cur'], st['c0'] = n, rig.ops[n]
                return n
            rig.skipped += 1
        n = en[0]
        st['cur'], st['c0'] = n, rig.ops[n]
        return n
    return ch


def make(scn, mode, arg, mutate=None):
    ref = [None]
    if mode == 'macro':
        ch = macro_scripted(ref, arg)
    elif mode == 'script':
        ch = SC.scripted(arg)
    elif mode == 'random':
        ch = SC.randomised(arg)
    else:
        ch = arg
    rig = DragonRig(scn, ch, mutate=mutate)
    ref[0] = rig
    return rig


def random_scenario(rng):
    n = rng.choice([1, 2, 2, 3, 3, 4])
    tasks = []
    for i in range(n):
        mode = rng.choice(['exec'] * 6 + ['func', 'func', 'badfunc'])
        if mode == 'exec':
            k = rng.choice([1, 1, 2, 3])
            rets = [rng.choice([0, 0, 0, 1, 2, -9, 137]) for _ in range(k)]
        elif mode == 'func':
            rets = [rng.choice([0, 0, 1])]
        else:
            rets = [0, 0]
        tasks.append({'uid': 't%d' % (i + 1), 'rets': rets, 'mode': mode,
                      'fault': rng.choice(['none'] * 8 + ['nolauncher', 'script']),
                      'timeout': 5 if rng.random() < 0.2 else 0})
    uids, bulks = [t['uid'] for t in tasks], []
    while uids:
        k = rng.randint(1, len(uids))
        bulks.append(uids[:k])
        uids = uids[k:]
    cancels = []
    for _ in range(rng.choice([0, 1, 1, 2])):
        cancels.append(rng.sample([t['uid'] for t in tasks], rng.randint(1, min(2, n))))
    return Scenario(tasks, bulks, cancels)
