'''
Batch trace validation: hand a list of recorded traces to a TLA+ trace monitor
(one TLC run per batch) and collect the verdict per trace.

The monitor modules follow one convention (see spec/AgentSched/AgentSchedTrace.tla):
  Batch == JsonDeserialize(IOEnv.TRACE_FILE);  Batch.traces[i].tid  = i
  the monitor prints  <<"RESULT", tid, errs>>  exactly once per trace
'''

import os
import json
import shutil

from . import tlc


def _sanitize(x):
    '''TLC's Json module raises on null and truncates floats: refuse both'''
    if x is None:
        raise ValueError('null in trace')
    if isinstance(x, float):
        raise ValueError('float in trace: %r' % x)
    if isinstance(x, dict):
        for k, v in x.items():
            _sanitize(v)
    elif isinstance(x, (list, tuple)):
        for v in x:
            _sanitize(v)
    elif isinstance(x, int) and not isinstance(x, bool):
        if abs(x) >= 2 ** 31:
            raise ValueError('int too large for TLC: %r' % x)


def validate(spec, module, constants, traces, timeout=900, workers=1,
             extra_cfg='', max_batch=400, deque=False, parallel=1):
    '''parallel > 1: batches are validated by that many TLC processes at once'''
    if parallel > 1 and len(traces) > max_batch:
        from concurrent.futures import ThreadPoolExecutor
        chunks = [traces[lo:lo + max_batch] for lo in range(0, len(traces), max_batch)]
        with ThreadPoolExecutor(max_workers=parallel) as pool:
            outs = list(pool.map(lambda c: _validate(spec, module, constants, c, timeout,
                                                     workers, extra_cfg, max_batch, deque), chunks))
        results, stats = [], {'states': 0, 'transitions': 0, 'runs': 0, 'wall': 0.0, 'cmd': ''}
        for r, st in outs:
            results += r
            for k in ('states', 'transitions', 'runs', 'wall'):
                stats[k] += st[k]
            stats['cmd'] = st['cmd']
        return results, stats
    return _validate(spec, module, constants, traces, timeout, workers, extra_cfg, max_batch, deque)


def _validate(spec, module, constants, traces, timeout=900, workers=1,
              extra_cfg='', max_batch=400, deque=False):
    '''
    constants : text for the CONSTANTS section of the generated cfg
    traces    : list of dicts (each gets 'tid' = position in its batch)
    returns   : (list of error-name lists, one per trace,  stats dict)
    '''
    results = [None] * len(traces)
    stats   = {'states': 0, 'transitions': 0, 'runs': 0, 'wall': 0.0, 'cmd': ''}
    for lo in range(0, len(traces), max_batch):
        chunk = traces[lo:lo + max_batch]
        for i, t in enumerate(chunk):
            t['tid'] = i + 1
            _sanitize(t)
        wd = tlc.scratch()
        try:
            tf = os.path.join(wd, 'traces.json')
            with open(tf, 'w') as fh:
                json.dump({'traces': chunk}, fh)
            cfg = 'CONSTANTS\n %s\nSPECIFICATION Spec\nCHECK_DEADLOCK FALSE\n%s\n' \
                  % (constants, extra_cfg)
            res = tlc.run(spec, module, 'Trace.cfg', workers=workers, timeout=timeout,
                          env={'TRACE_FILE': tf}, extra_files={'Trace.cfg': cfg},
                          workdir=wd, deque=deque)
            if not res.ok:
                raise tlc.TLCError('trace monitor run failed: %s\n%s'
                                   % (res.violated, res.out[-3000:]))
            stats['states']      += res.distinct
            stats['transitions'] += res.generated
            stats['runs']        += 1
            stats['wall']        += res.wall
            stats['cmd']          = res.cmd
            for txt in tlc.extract_tuples(res.out, 'RESULT'):
                v = tlc.parse_value(txt)
                results[lo + v[1] - 1] = sorted(v[2])
        finally:
            shutil.rmtree(wd, ignore_errors=True)
    missing = [i for i, r in enumerate(results) if r is None]
    if missing:
        raise tlc.TLCError('no verdict for traces %s' % missing[:10])
    return results, stats
